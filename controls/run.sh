#!/bin/sh
# usage: run.sh <control dir> "<properties>" [budget] [workers]
# Negative controls: behaviour-preserving refactorings written by independent agents. The change is applied to a
# scratch worktree of /repo HEAD (never to /repo), the suite is run there, then each named check runs against that
# tree (VERIF_REPO). Every check must exit 0; anything else is a false alarm to investigate (or a refactoring that
# is not behaviour-preserving after all).
export GOFLAGS=-mod=mod GOPROXY=off GOSUMDB=off GOTOOLCHAIN=local
D=$(cd "$1" && pwd); PS=$2; B=${3:-40}; W=${4:-8}; ID=$(basename "$D"); WT=/tmp/wt/ctl-$ID
git -C /repo worktree remove --force $WT 2>/dev/null
git -C /repo worktree add -q --detach $WT HEAD || exit 2
( cd $WT && git apply "$D/patch.diff" ) || { echo "$ID: PATCH-DOES-NOT-APPLY"; git -C /repo worktree remove --force $WT; exit 2; }
( cd $WT && go test -vet=off -count=1 ./... >/tmp/ctl-$ID-suite.log 2>&1 ) || echo "$ID: SUITE FAILS"
for P in $PS; do
  cd /verif && VERIF_REPO=$WT ./check $P --budget $B --workers $W > /tmp/ctl-$ID-$P.log 2>&1; rc=$?
  cls=$(grep -m1 "^violation class=\|^INFRA" /tmp/ctl-$ID-$P.log | cut -c1-170)
  echo "$ID vs $P: exit=$rc $cls"
done
git -C /repo worktree remove --force $WT
rm -rf /verif/.build/$(printf '%s' "$WT" | cksum | cut -d' ' -f1)
