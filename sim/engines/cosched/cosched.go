// Package cosched is the C06 engine. Driver A: a host-side seeded scheduler
// drives coroutines through the Go API (NewThread/Resume/Status) over generated
// body functions and is compared step by step with model coroutines. Driver B:
// generated SimLua programs that use create/resume/yield/wrap/status/running
// themselves (nested resumes, generators, wrapped coroutines that raise), with
// the single-fault sweep landing inside coroutine bodies.
package cosched

import (
	"fmt"
	"runtime/debug"
	"strings"

	lua "github.com/yuin/gopher-lua"

	"luasim/core"
	"luasim/engines/faultsweep"
	"luasim/hostapi"
	"luasim/ir"
	"luasim/model"
)

type Engine struct {
	b core.Engine
}

func New() core.Engine { return &Engine{b: faultsweep.New("C06", "coroutine")()} }

func (e *Engine) Name() string         { return "cosched" }
func (e *Engine) Properties() []string { return []string{"C06"} }
func (e *Engine) Level() string        { return "exploration" }
func (e *Engine) Rule() string {
	return "driver A: 1-4 generated coroutine bodies (yields of 0-3 values at several depths, in loops, from a nested call, as a tail-called yield, returns, raises) and a tape-drawn schedule of <=30 host-side Resume calls (any thread incl. dead ones, 0-3 arguments) executed through the Go API and on model coroutines; per step the resume state, the values in order and number, the status of every thread and the interleaved emits must agree; a one-shot error is injected at every instruction index. driver B: generated SimLua programs driving coroutines from Lua (profile coroutine) under the faultsweep oracle. sub-mode exhaustive (sub_mode_runs.exhaustive): for 4 (quick) / 60 (thorough) generated body pairs, every one of the 126 resume sequences of length <= 6 over two coroutines is enumerated (run index i = pair i/126, sequence i%126), with a reduced fault sweep. distinct_nontrivial = distinct (bodies, schedule, fault point) triples that fired, plus driver B's"
}
func (e *Engine) RealComponents() []string {
	return []string{"coroutine library (create/resume/yield/wrap/status/running)", "LState.NewThread/Resume/Status/XMoveTo", "threadRun/switchToParentThread/callGFunction yield path", "VM", "PCall recovery inside and around coroutines"}
}
func (e *Engine) StubComponents() []string {
	return []string{"the scheduler: which coroutine is resumed next and with what payload is the simulator's choice", "host observers"}
}
func (e *Engine) Assumptions() []string {
	return []string{"LState.Resume reports a yield/return of zero values as one nil (Go API convention); the comparison accepts exactly that",
		"yield across pcall/metamethod/iterator boundaries and resuming a 'normal' coroutine are never generated (Lua 5.1 forbids or leaves them undefined)"}
}

type vmSched struct {
	trace      []string
	escaped    string
	h          *hostapi.Host
	steps      int64
	fired      bool
	chunkSteps int64
}

func renderVals(h *hostapi.Host, vals []lua.LValue) string {
	parts := make([]string, len(vals))
	for i, v := range vals {
		parts[i] = h.Render(v)
	}
	return strings.Join(parts, ",")
}

// second one-shot error of a two-fault run (set around runVM; the worker is single-threaded)
var raise2At int64

func runVM(proto *lua.FunctionProto, bodies []string, sched [][]float64, who []int, kind int, at int64, maxSteps int64, o lua.Options, withCtx bool) (res *vmSched) {
	h := hostapi.NewHost(hostapi.Options{LuaOptions: o, Kind: kind, At: at, MaxSteps: maxSteps, WithContext: withCtx})
	if raise2At > 0 {
		h.Kind2, h.At2 = hostapi.VRaise, raise2At
	}
	res = &vmSched{h: h}
	L := h.L
	out := h.RunProto(proto)
	if out.Escaped != "" {
		res.escaped = out.Escaped
		return
	}
	if out.TopError != "" {
		h.Trace = append(h.Trace, "CHUNK-ERROR:"+out.TopError)
	}
	res.chunkSteps = h.Steps
	ths := make([]*lua.LState, len(bodies))
	fns := make([]*lua.LFunction, len(bodies))
	for i, w := range who {
		if h.Runaway {
			break
		}
		var line string
		func() {
			defer func() {
				if r := recover(); r != nil {
					if h.Runaway {
						return
					}
					res.escaped = fmt.Sprintf("step %d: %v\n%s", i, r, trimS(string(debug.Stack()), 2000))
				}
			}()
			if ths[w] == nil {
				fn, ok := L.GetGlobal(bodies[w]).(*lua.LFunction)
				if !ok {
					ths[w], _ = L.NewThread()
					line = "nobody"
					return
				}
				fns[w] = fn
				if (len(who)+len(bodies)+w)%3 == 0 {
					// a coroutine made by Lua's coroutine.create, driven from Go like one made by NewThread
					if err := L.CallByParam(lua.P{Fn: L.GetField(L.GetGlobal("coroutine"), "create"), NRet: 1, Protect: true}, fn); err != nil {
						panic(err)
					}
					ths[w] = L.Get(-1).(*lua.LState)
					L.Pop(1)
				} else {
					ths[w], _ = L.NewThread()
				}
			}
			args := make([]lua.LValue, len(sched[i]))
			for j, a := range sched[i] {
				args[j] = lua.LNumber(a)
			}
			top := L.GetTop()
			state, err, vals := L.Resume(ths[w], fns[w], args...)
			if L.GetTop() != top {
				h.Violations = append(h.Violations, fmt.Sprintf("resumer-stack: Resume changed the resumer's value stack height from %d to %d", top, L.GetTop()))
				L.SetTop(top)
			}
			switch state {
			case lua.ResumeError:
				msg := ""
				if ae, ok := err.(*lua.ApiError); ok && ae.Object != nil {
					msg = h.Render(ae.Object)
					if s, isS := ae.Object.(lua.LString); isS && (strings.Contains(string(s), "can not resume a dead thread") || strings.Contains(string(s), "can not resume a running thread")) {
						line = "refused"
						return
					}
				} else if err != nil {
					msg = model.NormalizeString(err.Error())
				}
				line = "error:" + msg
			case lua.ResumeOK:
				line = "ok:" + renderVals(h, vals)
			case lua.ResumeYield:
				line = "yield:" + renderVals(h, vals)
			}
		}()
		if res.escaped != "" {
			return
		}
		var sts []string
		for _, th := range ths {
			if th == nil {
				sts = append(sts, "-")
			} else {
				sts = append(sts, L.Status(th))
			}
		}
		h.Trace = append(h.Trace, fmt.Sprintf("S%d:co%d:%s|%s", i, w, line, strings.Join(sts, ",")))
	}
	res.trace = h.Trace
	res.steps = h.Steps
	res.fired = h.Fired
	return
}

func trimS(s string, n int) string {
	if len(s) > n {
		return s[:n] + "..."
	}
	return s
}

// normalize the Go API convention: zero values are reported as one nil.
func normLine(s string) string {
	if !strings.HasPrefix(s, "S") {
		return s
	}
	for _, k := range []string{":yield:nil|", ":ok:nil|"} {
		if i := strings.Index(s, k); i >= 0 {
			return s[:i] + k[:len(k)-4] + "|" + s[i+len(k):]
		}
	}
	return s
}

func normTrace(tr []string) []string {
	out := make([]string, len(tr))
	for i, s := range tr {
		out[i] = normLine(s)
	}
	return out
}

// schedules of length 1..6 over two coroutines: 2+4+...+64 = 126
const nSchedules = 126

func (e *Engine) Run(t *core.Tape, cfg *core.Config, st *core.Stats) *core.Violation {
	if cfg.Sub == "exhaustive" || (len(cfg.Aux) > 0 && cfg.Aux[0] == -2) {
		// bounded-exhaustive sub-mode: run index i = (body pair i/126, schedule i%126); every resume sequence of
		// length <= 6 over two coroutines is enumerated for every generated body pair
		idx := cfg.RunIndex
		c2 := *cfg
		c2.Aux = nil
		if len(cfg.Aux) > 0 {
			idx = cfg.Aux[1]
			c2.Aux = cfg.Aux[2:]
		}
		st.Probe("exhaustive_schedule")
		v := e.driverA(core.NewTape(core.Mix(0xC06, uint64(idx/nSchedules))), &c2, st, int(idx%nSchedules))
		if v != nil {
			v.Aux = append([]int64{-2, idx}, v.Aux...)
		}
		return v
	}
	d := t.Choose(3)
	if (len(cfg.Aux) == 0 && d == 0) || (len(cfg.Aux) > 0 && cfg.Aux[0] < 0) {
		// driver B (Lua-side driver) under the faultsweep oracle; Aux[0] = -1 marks its replays
		c2 := *cfg
		if len(cfg.Aux) > 0 {
			c2.Aux = cfg.Aux[1:]
		}
		st.Probe("driver_B")
		v := e.b.Run(t, &c2, st)
		if v != nil {
			v.Aux = append([]int64{-1}, v.Aux...)
		}
		return v
	}
	return e.driverA(t, cfg, st, -1)
}

func (e *Engine) driverA(t *core.Tape, cfg *core.Config, st *core.Stats, enumSched int) *core.Violation {
	st.Probe("driver_A")
	prof := ir.ProfileFor("cobodies")
	prof.Disabled = cfg.Disabled
	n := 1 + t.Choose(4)
	if enumSched >= 0 {
		n = 2
	}
	prog, bodies := ir.GenerateBodies(t, prof, n)
	src := ir.Render(prog, ir.DrawLayout(t)).Source
	proto, err := hostapi.Compile(src)
	if err != nil {
		return core.Violationf("rejects-valid", "generated program does not compile: %v\n%s", err, src)
	}
	for f, c := range prog.Features {
		st.ProbeN("feature_"+f, c)
	}
	// the schedule
	ns := 2 + t.Choose(29)
	if enumSched >= 0 {
		// decode: lengths 1..6, then the bits say which of the two coroutines is resumed at each step
		ns = 1
		rest := enumSched
		for rest >= 1<<uint(ns) {
			rest -= 1 << uint(ns)
			ns++
		}
		enumSched = rest
	}
	sched := make([][]float64, ns)
	who := make([]int, ns)
	for i := range sched {
		if enumSched >= 0 {
			who[i] = (enumSched >> uint(i)) & 1
			for j := 0; j < i%3; j++ {
				sched[i] = append(sched[i], float64(10*(i+1)+j))
			}
			continue
		}
		who[i] = t.Choose(n)
		na := t.Choose(4)
		if strings.HasPrefix(bodies[who[i]], "BV") {
			// vararg bodies are given long argument lists (counts around the byte and operand-size boundaries)
			na = []int{0, 1, 2, 3, 4, 50, 127, 128, 254, 255, 256, 257, 300, 511, 512, 513}[t.Choose(16)]
			st.Probe("resume_with_many_values")
		}
		for j := 0; j < na; j++ {
			sched[i] = append(sched[i], float64(10*(i+1)+j))
		}
	}
	o := hostapi.SmallOptions()
	if t.Choose(3) == 0 {
		o.MinimizeStackMemory = true
	}
	// one run in three: an (undone) context is attached, so the context-aware interpreter loop runs and every
	// coroutine gets a child context; nothing else may change
	withCtx := false
	if enumSched < 0 && t.Choose(3) == 0 {
		withCtx = true
		st.Probe("driver_A_with_context")
	}
	descS := func() string {
		var sb strings.Builder
		for i := range sched {
			fmt.Fprintf(&sb, "  step %d: Resume(co%d over %s, %v)\n", i, who[i], bodies[who[i]], sched[i])
		}
		return fmt.Sprintf("--- schedule ---\n%s--- program ---\n%s", sb.String(), src)
	}
	r0 := runVM(proto, bodies, sched, who, hostapi.VNone, 0, 80000, o, withCtx)
	st.Evals++
	st.Steps += r0.steps
	if r0.escaped != "" {
		return core.Violationf("escape", "fault-free schedule: Go panic left the Go API: %s\n%s", r0.escaped, descS())
	}
	if r0.h.Runaway {
		st.Discarded++
		return nil
	}
	free := model.RunSchedule(prog, bodies, sched, who, model.Options{MaxSteps: 400000})
	if free.Runaway {
		st.Discarded++
		return nil
	}
	cmp := func(vm []string, mt []string) string {
		a := normTrace(vm)
		mt = normTrace(mt)
		for i := 0; i < len(a) && i < len(mt); i++ {
			if a[i] != mt[i] {
				return fmt.Sprintf("first difference at line %d: implementation %q, model %q", i+1, a[i], mt[i])
			}
		}
		if len(a) != len(mt) {
			return fmt.Sprintf("transcripts agree on %d lines; implementation has %d, model %d", min(len(a), len(mt)), len(a), len(mt))
		}
		return ""
	}
	show := func(tr []string) string { return "  " + strings.Join(tr, "\n  ") + "\n" }
	if len(r0.h.Violations) > 0 {
		return core.Violationf(vclass(r0.h.Violations[0]), "fault-free schedule: %s\n%s", r0.h.Violations[0], descS())
	}
	if d := cmp(r0.trace, free.Trace); d != "" {
		return core.Violationf("transcript-mismatch", "fault-free schedule differs from the model coroutines: %s\nimplementation:\n%smodel:\n%s%s", d, show(r0.trace), show(free.Trace), descS())
	}
	S := r0.steps
	if S == 0 {
		return nil
	}
	// the acceptable set costs one model run per micro-step (times two store orders): long schedules are
	// compared fault-free only, which keeps the cost of a run bounded
	if free.Steps > 1200 && !cfg.Thorough || free.Steps > 3000 {
		st.Probe("long_schedule_fault_free_only")
		return nil
	}
	// acceptable set for raise@k
	var acc map[uint64]bool
	var accMaxSteps int64
	getAcc := func() map[uint64]bool {
		if acc != nil {
			return acc
		}
		acc = map[uint64]bool{model.HashTrace(normTrace(free.Trace), ""): true}
		orders := []bool{false}
		if prog.MultiAssign {
			orders = []bool{false, true} // the store order of a multiple assignment is not fixed
		}
		for _, rtl := range orders {
			for m := int64(1); m <= free.Steps; m++ {
				r := model.RunSchedule(prog, bodies, sched, who, model.Options{FaultKind: model.FaultRaise, FaultAt: m, StoreRTL: rtl, MaxSteps: 400000})
				acc[model.HashTrace(normTrace(r.Trace), "")] = true
				if r.Steps > accMaxSteps {
					accMaxSteps = r.Steps
				}
			}
		}
		return acc
	}
	fired := 0
	check := func(k int64) *core.Violation {
		budget := S*4 + 10000
		if budget < 150000 {
			budget = 150000
		}
		r := runVM(proto, bodies, sched, who, hostapi.VRaise, k, budget, o, withCtx)
		st.Evals++
		st.Steps += r.steps
		st.D(model.HashTrace(r.trace, ""))
		if !r.fired {
			return nil
		}
		fired++
		st.Fault("raise@k")
		where := fmt.Sprintf("one-shot error at instruction index %d of %d", k, S)
		if r.escaped != "" {
			return core.Violationf("escape", "%s: Go panic left the Go API: %s\n%s", where, r.escaped, descS())
		}
		if r.h.Runaway {
			// a fault may steer a body into a much longer path; judge only when the model says every single-fault run is short
			getAcc()
			if accMaxSteps*60 >= budget {
				st.Probe("long_fault_path_discarded")
				return nil
			}
			return core.Violationf("runaway-after-fault", "%s: schedule did not finish within %d steps (longest single-fault model run: %d micro-steps)\n%s", where, budget, accMaxSteps, descS())
		}
		if len(r.h.Violations) > 0 {
			return core.Violationf(vclass(r.h.Violations[0]), "%s: %s\n%s", where, r.h.Violations[0], descS())
		}
		if !getAcc()[model.HashTrace(normTrace(r.trace), "")] {
			return core.Violationf("fault-transcript-not-acceptable", "%s: the transcript is none of the %d the model coroutines produce with one abort at any micro-step\nimplementation:\n%sfault-free:\n%s%s", where, len(getAcc()), show(r.trace), show(free.Trace), descS())
		}
		return nil
	}
	// two one-shot errors, the second in the same or in a later resume
	var acc2 map[uint64]bool
	var acc2Runs int64
	getAcc2 := func() map[uint64]bool {
		if acc2 != nil {
			return acc2
		}
		acc2 = map[uint64]bool{}
		for h := range getAcc() {
			acc2[h] = true // the second point may lie past the end of the run
		}
		orders := []bool{false}
		if prog.MultiAssign {
			orders = []bool{false, true}
		}
		for _, rtl := range orders {
			for m1 := int64(1); m1 <= free.Steps; m1++ {
				r1 := model.RunSchedule(prog, bodies, sched, who, model.Options{FaultKind: model.FaultRaise, FaultAt: m1, StoreRTL: rtl, MaxSteps: 400000})
				for m2 := m1 + 1; m2 <= r1.Steps; m2++ {
					r := model.RunSchedule(prog, bodies, sched, who, model.Options{FaultKind: model.FaultRaise, FaultAt: m1, Fault2Kind: model.FaultRaise, Fault2At: m2, StoreRTL: rtl, MaxSteps: 400000})
					acc2[model.HashTrace(normTrace(r.Trace), "")] = true
					acc2Runs++
				}
			}
		}
		return acc2
	}
	check2 := func(k1, k2 int64) *core.Violation {
		raise2At = k2
		r := runVM(proto, bodies, sched, who, hostapi.VRaise, k1, S*4+150000, o, withCtx)
		raise2At = 0
		st.Evals++
		st.Steps += r.steps
		if !r.h.Fired2 {
			return nil
		}
		st.D(model.HashTrace(r.trace, ""))
		fired++
		st.Fault("raise@k+raise@k")
		where := fmt.Sprintf("one-shot errors at instruction indexes %d and %d of %d", k1, k2, S)
		var v *core.Violation
		switch {
		case r.escaped != "":
			v = core.Violationf("escape", "%s: Go panic left the Go API: %s\n%s", where, r.escaped, descS())
		case r.h.Runaway:
			st.Probe("long_fault_path_discarded")
		case len(r.h.Violations) > 0:
			v = core.Violationf(vclass(r.h.Violations[0]), "%s: %s\n%s", where, r.h.Violations[0], descS())
		case !getAcc2()[model.HashTrace(normTrace(r.trace), "")]:
			v = core.Violationf("two-fault-transcript-not-acceptable", "%s: the transcript is none of the %d the model coroutines produce with two aborts at any pair of micro-steps (%d model runs)\nimplementation:\n%sfault-free:\n%s%s", where, len(getAcc2()), acc2Runs, show(r.trace), show(free.Trace), descS())
		}
		if v != nil {
			v.Aux = []int64{k1, k2}
		}
		return v
	}
	if len(cfg.Aux) >= 2 {
		if cfg.Aux[0] < 1 || cfg.Aux[1] <= cfg.Aux[0] {
			return nil
		}
		return check2(cfg.Aux[0], cfg.Aux[1])
	}
	if len(cfg.Aux) >= 1 {
		k := (cfg.Aux[0]-1)%S + 1
		if k <= r0.chunkSteps {
			k = r0.chunkSteps + 1
		}
		return check(k)
	}
	capPts := int64(300)
	if cfg.Thorough {
		capPts = 1200
	}
	if enumSched >= 0 {
		capPts = 60
	}
	stride := int64(1)
	if S > capPts {
		stride = S/capPts + 1
	}
	// faults strike after the chunk has defined the bodies (the chunk itself is C05's business)
	for k := r0.chunkSteps + 1 + int64(t.Choose(int(stride))); k <= S; k += stride {
		if v := check(k); v != nil {
			v.Aux = []int64{k}
			return v
		}
	}
	if lim := int64(110); (free.Steps <= lim || cfg.Thorough && free.Steps <= 2*lim) && enumSched < 0 && S > r0.chunkSteps+1 {
		st.Probe("two_fault_schedule")
		span := S - r0.chunkSteps
		n1 := span
		if n1 > 30 {
			n1 = 30
		}
		for i := int64(0); i < n1; i++ {
			k1 := r0.chunkSteps + 1 + i*span/n1
			r1 := runVM(proto, bodies, sched, who, hostapi.VRaise, k1, S*4+150000, o, withCtx)
			st.Evals++
			if !r1.fired || r1.h.Runaway || r1.escaped != "" {
				continue
			}
			span2 := r1.steps - k1
			n2 := span2
			if n2 > 16 {
				n2 = 16
			}
			for j := int64(0); j < n2; j++ {
				k2 := k1 + 1 + (j*span2/n2+int64(t.Pos())%3)%span2
				if v := check2(k1, k2); v != nil {
					return v
				}
			}
		}
	}
	st.DistinctW(uint64(core.NewHash().Str(src).Str(fmt.Sprint(who, sched))), fired+1)
	if st.WantSample() {
		st.Sample(map[string]interface{}{"bodies": src, "schedule_who": who, "schedule_args": sched, "transcript": r0.trace})
	}
	return nil
}

func min(a, b int) int {
	if a < b {
		return a
	}
	return b
}

func vclass(s string) string {
	if i := strings.Index(s, ":"); i > 0 {
		return s[:i]
	}
	return "structural"
}

// DebugA replays a driver-A tape with a single fault and prints the closest model transcript.
func DebugA(draws []uint32, aux []int64) {
	t := core.ReplayTape(draws)
	t.Choose(3)
	prof := ir.ProfileFor("cobodies")
	n := 1 + t.Choose(4)
	prog, bodies := ir.GenerateBodies(t, prof, n)
	src := ir.Render(prog, ir.DrawLayout(t)).Source
	for i, l := range strings.Split(src, "\n") {
		fmt.Printf("%4d %s\n", i+1, l)
	}
	proto, err := hostapi.Compile(src)
	if err != nil {
		fmt.Println(err)
		return
	}
	ns := 2 + t.Choose(29)
	sched := make([][]float64, ns)
	who := make([]int, ns)
	for i := range sched {
		who[i] = t.Choose(n)
		na := t.Choose(4)
		if strings.HasPrefix(bodies[who[i]], "BV") {
			na = []int{0, 1, 2, 3, 4, 50, 127, 128, 254, 255, 256, 257, 300, 511, 512, 513}[t.Choose(16)]
		}
		for j := 0; j < na; j++ {
			sched[i] = append(sched[i], float64(10*(i+1)+j))
		}
	}
	o := hostapi.SmallOptions()
	if t.Choose(3) == 0 {
		o.MinimizeStackMemory = true
	}
	withCtx := t.Choose(3) == 0
	fmt.Println("schedule:", who, sched, "context attached:", withCtx)
	r0 := runVM(proto, bodies, sched, who, hostapi.VNone, 0, 80000, o, withCtx)
	free := model.RunSchedule(prog, bodies, sched, who, model.Options{MaxSteps: 400000})
	if len(aux) < 1 {
		return
	}
	S := r0.steps
	k := (aux[0]-1)%S + 1
	if k <= r0.chunkSteps {
		k = r0.chunkSteps + 1
	}
	r := runVM(proto, bodies, sched, who, hostapi.VRaise, k, S*4+10000, o, withCtx)
	vm := normTrace(r.trace)
	best, bestM := -1, int64(0)
	var bestT []string
	for m := int64(1); m <= free.Steps; m++ {
		mr := model.RunSchedule(prog, bodies, sched, who, model.Options{FaultKind: model.FaultRaise, FaultAt: m, MaxSteps: 400000})
		mt := normTrace(mr.Trace)
		c := 0
		for c < len(mt) && c < len(vm) && mt[c] == vm[c] {
			c++
		}
		if c > best {
			best, bestM, bestT = c, m, mt
		}
	}
	fmt.Printf("fault at step %d (chunk steps %d); closest model abort %d, common prefix %d\n", k, r0.chunkSteps, bestM, best)
	nn := len(vm)
	if len(bestT) > nn {
		nn = len(bestT)
	}
	for i := 0; i < nn; i++ {
		a, b := "", ""
		if i < len(vm) {
			a = vm[i]
		}
		if i < len(bestT) {
			b = bestT[i]
		}
		mark := " "
		if a != b {
			mark = "*"
		}
		fmt.Printf("%s %-50s | %s\n", mark, a, b)
	}
}
