// Package cancelsweep is the C11 engine: sticky cancellation of the simulated
// context at every global instruction index of generated terminating programs
// and of parameterised non-terminating templates, with an exact-prefix oracle.
package cancelsweep

import (
	"fmt"
	"strings"

	lua "github.com/yuin/gopher-lua"

	"luasim/core"
	"luasim/hostapi"
	"luasim/ir"
	"luasim/model"
)

type Engine struct{}

func New() core.Engine { return &Engine{} }

func (e *Engine) Name() string         { return "cancelsweep" }
func (e *Engine) Properties() []string { return []string{"C11"} }
func (e *Engine) Level() string        { return "fault_enumeration" }
func (e *Engine) Rule() string {
	return "one run = one program: a generated SimLua program (loops, recursion, tail calls, goto loops, pcall/xpcall bodies and handlers, metamethods, iterators, comparators, coroutines) or a parameterised non-terminating template cut at a step budget. Run 0 attaches a context that never fires and records the global step index of every emit (its trace must equal the trace without any context and the reference model's). Then the context is fired at every global instruction index k (stride above the per-program cap) and the run must return the context's reason with exactly the emits of run 0 that happened before k, no dispatch after the fire, and at most 2*(depth+1) further loop iterations. distinct_nontrivial = distinct (program, k) pairs at which the cancellation actually fired"
}
func (e *Engine) RealComponents() []string {
	return []string{"mainLoopWithContext", "context polling before every instruction", "NewThread child contexts for coroutines", "PCall/xpcall/pcall recovery under cancellation", "coroutine library", "compiler/VM"}
}
func (e *Engine) StubComponents() []string {
	return []string{"context.Context (SimContext: Done/Err controlled by the simulator, AfterFunc cancels child contexts synchronously)", "host observers emit/snap/clobber"}
}
func (e *Engine) Assumptions() []string {
	return []string{"handlers written in Go are not used (they legitimately run without a dispatch)", "coroutines created before the context was attached are outside the statement and not generated",
		"blocked channel operations are exercised by the multistate part of this check (see coverage.sub_mode_runs)"}
}

// non-terminating templates; %d parameters are small integers from the tape
var templates = []struct {
	name string
	src  string
}{
	{"while_true", `local n = 0 while true do n = n + 1 if n %% %d == 0 then emit("w", n) end end`},
	{"repeat_forever", `local n = 0 repeat n = n + 1 if n %% %d == 0 then emit("r", n) end until false`},
	{"for_huge", `for i = 1, math.huge do if i %% %d == 0 then emit("f", i) end end`},
	{"goto_loop", `local n = 0 ::top:: n = n + 1 if n %% %d == 0 then emit("g", n) end goto top`},
	{"tail_recursion", `local function f(n) if n %% %d == 0 then emit("t", n) end return f(n + 1) end f(1)`},
	{"deep_recursion_retry", `local function f(n) if n %% %d == 0 then emit("d", n) end return 1 + f(n + 1) end while true do local ok, e = pcall(f, 1) emit("retry", ok) end`},
	{"pcall_error_loop", `local n = 0 while true do n = n + 1 local ok, e = pcall(error, "x", 0) if n %% %d == 0 then emit("p", n, ok, e) end end`},
	{"xpcall_handler_loops", `local k = %d xpcall(function() error("boom", 0) end, function(e) local n = 0 while true do n = n + 1 if n %% k == 0 then emit("h", n) end end end)`},
	{"xpcall_retry", `local n = 0 while true do n = n + 1 xpcall(function() local t = nil; return t.x end, function(e) if n %% %d == 0 then emit("xh", n) end return 1 end) end`},
	{"index_recursion", `local k = %d local n = 0 local mt = {} mt.__index = function(t, key) n = n + 1 if n %% k == 0 then emit("i", n) end return t[key + 1] end local t = setmetatable({}, mt) while true do pcall(function() return t[1] end) emit("again") end`},
	{"coroutine_pingpong", `local k = %d local a = coroutine.wrap(function() local n = 0 while true do n = n + 1 coroutine.yield(n) end end) while true do local v = a() if v %% k == 0 then emit("pp", v) end end`},
	{"wrap_generator_forever", `local k = %d local function gen() return coroutine.wrap(function() local i = 0 while true do i = i + 1 coroutine.yield(i) end end) end for v in gen() do if v %% k == 0 then emit("gen", v) end end`},
	{"string_building", `local s = "" local n = 0 while true do n = n + 1 s = s .. "x" if #s > 40 then s = "" end if n %% %d == 0 then emit("s", #s) end end`},
	{"nested_coroutines", `local k = %d local function mk(d) return coroutine.create(function() if d > 0 then local c = mk(d - 1) while true do local ok, v = coroutine.resume(c) coroutine.yield(v) end else local n = 0 while true do n = n + 1 if n %% k == 0 then emit("nc", n) end coroutine.yield(n) end end end) end local top = mk(3) while true do coroutine.resume(top) end`},
	{"sort_comparator_loop", `local k = %d local n = 0 while true do local t = {5, 3, 8, 1, 9, 2} table.sort(t, function(a, b) n = n + 1 if n %% k == 0 then emit("c", n) end return a < b end) end`},
	{"gsub_callback_loop", `local k = %d local n = 0 while true do string.gsub("abcdef", "%%a", function(c) n = n + 1 if n %% k == 0 then emit("gs", n, c) end return c end) end`},
	{"select_receive_handler_loops", `local k = %d local ch = channel.make(1) ch:send(1) channel.select({"|<-", ch, function(ok, v) local n = 0 while true do n = n + 1 if n %% k == 0 then emit("sh", n, v) end end end})`},
	{"select_send_handler_loop", `local k = %d local n = 0 local ch = channel.make(4) while true do channel.select({"<-|", ch, n, function(v) n = n + 1 if n %% k == 0 then emit("ss", n) end end}) local ok, v = ch:receive() end`},
	{"index_chain_with_a_cycle", `local k = %d local n = 0 local a, b, c = {}, {}, {} setmetatable(a, {__index = b}) setmetatable(b, {__index = c}) setmetatable(c, {__index = b}) while true do local ok, e = pcall(function() return a.missing end) n = n + 1 if n %% k == 0 then emit("ic", n, ok) end end`},
	{"error_handler_chain", `local k = %d local n = 0 local function f() n = n + 1 if n %% k == 0 then emit("eh", n) end local ok = pcall(f) error("again", 0) end pcall(f) while true do pcall(f) end`},
}

// terminating hand-written scenarios (no reference model needed: the oracle is
// run 0 without a context); they cover coroutine lifetimes the generator's
// resume discipline does not produce.
var scenarios = []struct {
	name string
	src  string
}{
	{"coroutine_kept_in_a_global", `CO = coroutine.create(function() local n = 0 while true do n = n + 1 emit("z", n) if n % 3 == 0 then coroutine.yield(n) end end end)
for i = 1, 6 do emit("m", coroutine.resume(CO)) end
emit("done")`},
	{"xpcall_handler_after_stack_overflow", `local function rec(n) return rec(n + 1) + 1 end
local ok, e = xpcall(function() return rec(1) end, function(m) for i = 1, 40 do emit("so", i) end return "H" end)
emit("done", ok)`},
	{"inner_coroutine_outlives_creator", `local inner
local outer = coroutine.create(function()
  inner = coroutine.create(function(a) emit("in1", a) local b = coroutine.yield(a + 1) emit("in2", b) local c = coroutine.yield(b + 1) emit("in3", c) return "done" end)
  emit("outer", coroutine.resume(inner, 1))
end)
emit("r0", coroutine.resume(outer))
emit("st", coroutine.status(outer), coroutine.status(inner))
emit("r1", coroutine.resume(inner, 10))
emit("r2", coroutine.resume(inner, 20))
emit("st", coroutine.status(inner))`},
	{"third_generation_outlives_first", `local C
local A = coroutine.create(function()
  local B = coroutine.create(function()
    C = coroutine.create(function(a) emit("c1", a) local b = coroutine.yield(a + 1) emit("c2", b) local c = coroutine.yield(b + 1) emit("c3", c) return "done" end)
    emit("B", coroutine.resume(C, 1))
  end)
  emit("A", coroutine.resume(B))
  coroutine.yield("A-yield")
  emit("A-ends")
end)
emit("r0", coroutine.resume(A))
emit("st", coroutine.status(A), coroutine.status(C))
emit("r1", coroutine.resume(C, 10))
emit("rA", coroutine.resume(A))
emit("st", coroutine.status(A), coroutine.status(C))
emit("r2", coroutine.resume(C, 20))
emit("st", coroutine.status(C))`},
	{"wrap_created_in_dead_coroutine", `local gen
local maker = coroutine.wrap(function() gen = coroutine.wrap(function() for i = 1, 4 do coroutine.yield(i) end end) return 1 end)
emit("mk", maker())
for v in gen do emit("v", v) end`},
	{"grandchild_chain", `local function mk(d) return coroutine.wrap(function() if d == 0 then for i = 1, 3 do coroutine.yield(i) end else local c = mk(d - 1) for v in c do coroutine.yield(v * 2) end end end) end
for v in mk(3) do emit("g", v) end`},
	{"coroutine_error_then_continue", `local co = coroutine.create(function() local t = nil; return t.x end)
emit("e", coroutine.resume(co))
local co2 = coroutine.create(function(a) return a + 1 end)
emit("ok", coroutine.resume(co2, 41))
emit("dead", coroutine.resume(co2, 1))`},
	{"pcall_inside_coroutine", `local co = coroutine.wrap(function() for i = 1, 3 do local ok, e = pcall(error, "x" .. i, 0) coroutine.yield(ok, e) end end)
for i = 1, 3 do emit("p", co()) end`},
	// loops whose bodies are empty: every iteration is at least one dispatched instruction (checked below:
	// MINSTEPS), or the loop could not be interrupted between two iterations
	{"empty_loop_bodies", `local n = 0
for i = 1, 700 do end
for i = 700, 1, -1 do end
for i = 1, 350, 0.5 do end
while n < 700 do n = n + 1 end
repeat n = n - 1 until n <= 0
emit("done", n) -- MINSTEPS 4900`},
}

type vmRun struct {
	h   *hostapi.Host
	out hostapi.Outcome
}

var onThread bool     // set per run (single-threaded worker)
var mainContext bool  // with onThread: the main state keeps a context of its own that is never done
var threadCancel bool // with mainContext: the thread keeps its derived child context and is cancelled through NewThread's cancel function
var bare bool         // the program's entry is the first call ever made on the state
var noCtxFirst bool   // the state starts without a context at all; reattach() attaches the simulated one in mid-run
var bgFirst bool      // the state starts under context.Background(); the program's reattach() attaches the simulated one

// preRaiseAt > 0: every run of the program (with and without context, fired or not) gets a run-time error injected
// at that instruction index first; the cancellation then arrives while or after that error is being handled
var preRaiseAt int64

func exec(proto *lua.FunctionProto, o lua.Options, withCtx bool, kind int, at int64, maxSteps int64) *vmRun {
	kind2, at2 := 0, int64(0)
	if preRaiseAt > 0 {
		kind2, at2 = kind, at
		kind, at = hostapi.VRaise, preRaiseAt
	}
	h := hostapi.NewHost(hostapi.Options{LuaOptions: o, Kind: kind, At: at, MaxSteps: maxSteps, WithContext: withCtx, OnThread: onThread, MainContext: mainContext, Bare: bare, BackgroundFirst: bgFirst, NoContextFirst: noCtxFirst && withCtx, ThreadCancelFunc: threadCancel})
	h.Kind2, h.At2 = kind2, at2
	if !bare {
		// math and channel are needed by some templates
		h.L.Push(h.L.NewFunction(lua.OpenMath))
		h.L.Push(lua.LString(lua.MathLibName))
		h.L.Call(1, 0)
		h.L.Push(h.L.NewFunction(lua.OpenChannel))
		h.L.Push(lua.LString(lua.ChannelLibName))
		h.L.Call(1, 0)
	} else {
		lua.OpenChannel(h.L)
		h.L.SetTop(0)
	}
	out := h.RunProto(proto)
	return &vmRun{h: h, out: out}
}

func sameTrace(a, b []string) bool {
	if len(a) != len(b) {
		return false
	}
	for i := range a {
		if a[i] != b[i] {
			return false
		}
	}
	return true
}

func showTrace(tr []string) string {
	if len(tr) > 40 {
		return strings.Join(tr[:20], "\n  ") + fmt.Sprintf("\n  ... (%d more) ...\n  ", len(tr)-40) + strings.Join(tr[len(tr)-20:], "\n  ")
	}
	return strings.Join(tr, "\n  ")
}

func (e *Engine) Run(t *core.Tape, cfg *core.Config, st *core.Stats) *core.Violation {
	var src, name string
	var prog *ir.Program
	terminating := t.Choose(3) != 0
	scenario := terminating && t.Choose(6) == 0
	if scenario {
		i := t.Choose(len(scenarios))
		src = "local emit = emit\n" + scenarios[i].src
		name = scenarios[i].name
	} else if terminating {
		prof := ir.ProfileFor("cancel")
		prof.Disabled = cfg.Disabled
		prog = ir.Generate(t, prof)
		src = ir.Render(prog, ir.DrawLayout(t)).Source
		name = "simlua"
	} else {
		i := t.Choose(len(templates))
		k := 1 + t.Choose(7)
		src = "local emit = emit\n" + fmt.Sprintf(templates[i].src, k)
		name = templates[i].name
	}
	// a host function may replace the attached context in mid-run; the cancellation then hits the new one
	if name != "simlua" && t.Choose(4) == 0 {
		src = "reattach()\n" + src
		name += "@reattach"
		st.Probe("context_replaced_in_mid_run")
	}
	// the context may be attached to a thread created from a context-less main state
	onThread = name != "simlua" && t.Choose(3) == 0
	bgFirst, noCtxFirst = false, false
	if !onThread && strings.Contains(name, "@reattach") && t.Choose(2) == 0 {
		bgFirst = true
		name += "+bgfirst"
		st.Probe("context_attached_over_background")
		if t.Choose(2) == 0 {
			// not even context.Background(): the loop that runs the program is the one without context polling
			noCtxFirst = true
			name += "+nocontextfirst"
			st.Probe("context_attached_to_a_state_that_had_none")
		}
	}
	bare = false
	if !onThread && t.Choose(4) == 0 {
		bare = true
		name += "@bare"
		st.Probe("entry_is_first_call_on_the_state")
	}
	mainContext = false
	threadCancel = false
	if onThread {
		st.Probe("context_on_non_main_thread")
		name += "@thread"
		if t.Choose(2) == 0 {
			// the main state has its own (never done) context; the thread's context was attached over the inherited one
			mainContext = true
			name += "+mainctx"
			st.Probe("thread_context_over_inherited_context")
			if t.Choose(2) == 0 {
				threadCancel = true
				name += "+cancelfunc"
				st.Probe("thread_cancelled_through_its_cancel_function")
			}
		}
	}
	if t.Choose(25) == 0 {
		// a host function removes the (undone) context in mid-run: nothing observable changes
		const detachSrc = `local n = 0
for i = 1, 40 do n = n + i if i == 10 then detach() end if i % 8 == 0 then emit("d", i, n) end end
local ok, e = pcall(function() local s = 0 for i = 1, 10 do s = s + i end return s end)
emit("done", n, ok, e)`
		onThread, mainContext, bare, bgFirst, noCtxFirst, threadCancel, preRaiseAt = false, false, false, false, false, false, 0
		proto, err := hostapi.Compile(detachSrc)
		if err != nil {
			panic(err)
		}
		with := exec(proto, hostapi.SmallOptions(), true, hostapi.VNone, 0, 10000)
		without := exec(proto, hostapi.SmallOptions(), false, hostapi.VNone, 0, 10000)
		st.Evals += 2
		st.Probe("context_removed_in_mid_run")
		if with.out.Escaped != "" || with.out.TopError != without.out.TopError || !sameTrace(with.h.Trace, without.h.Trace) {
			return core.Violationf("context-changes-behaviour", "a host function removes the attached (never done) context in mid-run: the run ends with error %q escaped %q and %d emits; without a context: error %q and %d emits\nprogram:\n%s",
				with.out.TopError, with.out.Escaped, len(with.h.Trace), without.out.TopError, len(without.h.Trace), detachSrc)
		}
	}
	o := hostapi.SmallOptions()
	switch t.Choose(4) {
	case 1:
		o.MinimizeStackMemory = true
	case 2:
		o = lua.Options{CallStackSize: lua.CallStackSize, RegistrySize: lua.RegistrySize}
	}
	proto, err := hostapi.Compile(src)
	if err != nil {
		return core.Violationf("rejects-valid", "program does not compile: %v\n%s", err, src)
	}
	st.Probe("program_" + name)
	desc := func() string { return fmt.Sprintf("program (%s):\n%s", name, src) }

	budget := int64(40000)
	if !terminating {
		budget = int64(1500 + t.Choose(3000))
	}
	preRaiseAt = 0
	if !bgFirst && t.Choose(4) == 0 {
		preRaiseAt = int64(1 + t.Choose(300))
		name += fmt.Sprintf("+raise@%d", preRaiseAt)
		st.Probe("cancellation_after_an_injected_error")
	}
	// run 0: context attached, never fires
	r0 := exec(proto, o, true, hostapi.VNone, 0, budget)
	st.Evals++
	st.Steps += r0.h.Steps
	if r0.out.Escaped != "" {
		return core.Violationf("escape", "run with an undone context: Go panic left the entry point: %s\n%s", r0.out.Escaped, desc())
	}
	if terminating && r0.h.Runaway {
		st.Discarded++
		return nil
	}
	if !terminating && !r0.h.Runaway && preRaiseAt > 0 {
		terminating = true // the injected error ended the program
	}
	if !terminating && !r0.h.Runaway {
		return core.Violationf("harness", "template %s terminated (outcome %q); it is meant to run forever\n%s", name, r0.out.RawError, desc())
	}
	// behaviour unchanged by attaching a context
	rn := exec(proto, o, false, hostapi.VNone, 0, budget)
	st.Evals++
	st.Steps += rn.h.Steps
	if !sameTrace(rn.h.Trace, r0.h.Trace) || rn.out.TopError != r0.out.TopError || rn.h.Steps != r0.h.Steps {
		return core.Violationf("context-changes-behaviour", "attaching a context that is never done changed the run: without context %d steps, %d emits, error %q; with context %d steps, %d emits, error %q\nwithout:\n  %s\nwith:\n  %s\n%s",
			rn.h.Steps, len(rn.h.Trace), rn.out.TopError, r0.h.Steps, len(r0.h.Trace), r0.out.TopError, showTrace(rn.h.Trace), showTrace(r0.h.Trace), desc())
	}
	if terminating && !scenario && preRaiseAt == 0 {
		free := model.Run(prog, model.Options{MaxSteps: 400000})
		if !free.Runaway && model.HashTrace(r0.h.Trace, r0.out.TopError) != free.TraceHash {
			return core.Violationf("trace-mismatch", "run with an undone context differs from the reference model\nimplementation:\n  %s\nmodel:\n  %s\n%s", showTrace(r0.h.Trace), showTrace(free.Trace), desc())
		}
	}
	S := r0.h.Steps
	if i := strings.Index(src, "MINSTEPS "); i >= 0 && preRaiseAt == 0 {
		var min int64
		fmt.Sscan(src[i+len("MINSTEPS "):], &min)
		if S < min {
			return core.Violationf("iterations-without-dispatch", "the program executes at least %d loop iterations but only %d instructions were dispatched: iterations that complete inside one dispatch cannot be interrupted by a done context\n%s", min, S, desc())
		}
	}
	if S == 0 {
		return nil
	}
	if S > budget {
		S = budget
	}

	fired := 0
	check := func(k int64) *core.Violation {
		if bgFirst && k <= r0.h.ReattachStep+1 {
			return nil // the simulated context is not attached yet (the state still runs under context.Background())
		}
		if preRaiseAt > 0 && k <= preRaiseAt {
			return nil // cancellations before the error are what the variant without it covers
		}
		// after the fire the run may make at most 2*(D+1) more loop iterations; give it a generous but finite cap
		r := exec(proto, o, true, hostapi.VCancel, k, k+int64(2*(300+1))+64)
		st.Evals++
		st.Steps += r.h.Steps
		st.D(model.HashTrace(r.h.Trace, r.out.TopError) ^ uint64(r.h.StepsAfter))
		if !r.h.Fired || preRaiseAt > 0 && !r.h.Fired2 {
			return nil
		}
		fired++
		st.Fault("cancel@k")
		if preRaiseAt > 0 {
			st.Fault("raise@k1+cancel@k")
		}
		where := fmt.Sprintf("context fired at global step %d of %d (frame depth over the resume chain at that instant: %d)", k, S, r.h.FiredDepth)
		if r.h.FiredDepth > 1 {
			st.Probe("cancel_at_depth>1")
		}
		if r.out.Escaped != "" {
			return core.Violationf("escape", "%s: Go panic left the entry point: %s\n%s", where, r.out.Escaped, desc())
		}
		bound := int64(2 * (r.h.FiredDepth + 1))
		if r.h.Runaway {
			return core.Violationf("runaway-after-cancel", "%s: the entry point had not returned after %d further loop iterations (bound 2*(depth+1) = %d)\nemits after the fire: %v\n%s",
				where, r.h.StepsAfter, bound, tail(r.h.Trace, 5), desc())
		}
		if r.h.DispAfter != 0 {
			return core.Violationf("dispatch-after-done", "%s: %d instructions were dispatched by the context-aware loop after the context was done\n%s", where, r.h.DispAfter, desc())
		}
		// exact prefix
		want := 0
		for want < len(r0.h.EmitStep) && r0.h.EmitStep[want] < k {
			want++
		}
		if !sameTrace(r.h.Trace, r0.h.Trace[:want]) {
			return core.Violationf("not-exact-prefix", "%s: the run must show exactly the %d emits that happened before the fire; it shows %d\ngot:\n  %s\nwant:\n  %s\n%s",
				where, want, len(r.h.Trace), showTrace(r.h.Trace), showTrace(r0.h.Trace[:want]), desc())
		}
		// a coroutine the program left in the global CO - dead (killed by the cancellation) or suspended - is a coroutine
		// created after the context was attached: entered through the Go API now, it executes nothing either
		if co, ok := r.h.L.GetGlobal("CO").(*lua.LState); ok && !threadCancel {
			n0, s0 := len(r.h.Trace), r.h.Steps
			var err error
			func() {
				defer func() {
					if p := recover(); p != nil {
						err = fmt.Errorf("Go panic: %v", p)
					}
				}()
				err = co.DoString(`emit("entered a coroutine of the cancelled state")`)
			}()
			st.Probe("coroutine_entered_after_cancellation")
			if err == nil || len(r.h.Trace) != n0 {
				return core.Violationf("dispatch-after-done", "%s: after the cancelled call had returned, a chunk run through the Go API on the coroutine the program keeps in CO (status %s) executed (%d further instruction boundaries, error %v)\n%s", where, r.h.L.Status(co), r.h.Steps-s0, err, desc())
			}
		}
		if !r.out.ErrIsCancel {
			return core.Violationf("no-cancel-error", "%s: the entry point returned %q, which does not carry the context's reason\n%s", where, r.out.RawError, desc())
		}
		if r.h.StepsAfter > bound {
			return core.Violationf("too-many-attempts", "%s: %d further loop iterations after the fire, bound 2*(depth+1) = %d\n%s", where, r.h.StepsAfter, bound, desc())
		}
		for _, v := range r.h.Violations {
			if strings.HasPrefix(v, "structure-not-restored") || strings.HasPrefix(v, "gopcall-stack") {
				return core.Violationf("structure-not-restored", "%s: %s\n%s", where, v, desc())
			}
		}
		return nil
	}

	if len(cfg.Aux) >= 1 {
		k := (cfg.Aux[0]-1)%S + 1
		if k < 1 {
			k = 1
		}
		st.Event("cancel at %d", k)
		return check(k)
	}
	capPts := int64(400)
	if cfg.Thorough {
		capPts = 1500
	}
	stride := int64(1)
	if S > capPts {
		stride = S/capPts + 1
	}
	off := int64(t.Choose(int(stride)))
	for k := 1 + off; k <= S; k += stride {
		if v := check(k); v != nil {
			v.Aux = []int64{k}
			return v
		}
	}
	st.DistinctW(uint64(core.NewHash().Str(src).Int(int(off))), fired)
	if st.WantSample() {
		st.Sample(map[string]interface{}{"program": name, "source": src, "steps": S, "cancel_points_fired": fired, "terminating": terminating})
	}
	return nil
}

func tail(s []string, n int) []string {
	if len(s) > n {
		return s[len(s)-n:]
	}
	return s
}
