// Package iohist is the C19 engine: seeded histories over a few io handles on
// files in a private directory, checked operation by operation against an
// in-memory byte-sequence model with a single cursor per handle.
package iohist

import (
	"bytes"
	"fmt"
	"os"
	"path/filepath"
	"runtime/debug"
	"strings"
	"syscall"

	lua "github.com/yuin/gopher-lua"

	"luasim/core"
)

type Engine struct{}

func New() core.Engine { return &Engine{} }

func (e *Engine) Name() string         { return "iohist" }
func (e *Engine) Properties() []string { return []string{"C19"} }
func (e *Engine) Level() string        { return "exploration" }
func (e *Engine) Rule() string {
	return "one run = one history of <=60 operations (one run in ten: 200-600) over <=3 simultaneously open handles on <=2 files in a private directory: io.open in all twelve modes, write (strings/numbers, lengths around the 4096-byte buffers), read by count / line / all, lines() consumed for j steps, seek set/cur/end incl. past EOF and before 0, flush, setvbuf no/full with sizes 1/16/4096/4097, close, io.type, every operation again on a closed handle, io.lines(path), and durability probes through a freshly opened second handle; initial sizes 0..12000 around the buffer boundaries, lines up to 9000 bytes. The generator inserts the seek or flush the statement requires between a read and a following write (and between a write and a read). After every operation the returned values must equal the byte-sequence model's, at close and at the end the bytes on disk must equal the model's. distinct_nontrivial = distinct histories (hash of the operation sequence) with at least one write and one read"
}
func (e *Engine) RealComponents() []string {
	return []string{"iolib.go (lFile, fileReadAux/fileWriteAux/fileSeek/fileFlush/fileSetVBuf/fileClose/lines)", "bufio.Reader/bufio.Writer over *os.File", "the kernel's file system on a private directory", "VM"}
}
func (e *Engine) StubComponents() []string {
	return []string{"the reference disk: an in-memory byte sequence per path with one cursor per handle (oracle)", "the operation schedule (tape)"}
}
func (e *Engine) Assumptions() []string {
	return []string{"only the shape of a soft failure (nil plus message) is compared, never its text", "contents never have CR immediately before LF (what a line end is on a platform is not part of the statement)",
		"kernel I/O errors (ENOSPC, EIO) are not injected: there is no seam below *os.File", "bytes still in a 'full' write buffer may be absent from a second handle's view, but only as a suffix of that handle's pending bytes"}
}

// ---- model ----

type mfile struct {
	data []byte
}

type mhandle struct {
	name      string
	f         *mfile
	path      string
	canRead   bool
	canWrite  bool
	appendM   bool
	pos       int
	open      bool
	closed    bool
	full      bool   // setvbuf("full")
	pending   []byte // written, not yet flushed (full mode)
	pendStart int
	minSeen   int    // smallest pending prefix a second handle has already seen (monotone)
	lastOp    string // "", read, write, sync
	readEOF   bool
	opened    bool // has ever been opened
	hasIter   bool // a line iterator of this handle is kept in the Lua global IT_<n>
}

func (h *mhandle) flushPending() {
	if len(h.pending) == 0 {
		return
	}
	at := h.pendStart
	if h.appendM {
		at = len(h.f.data)
	}
	writeAt(h.f, at, h.pending)
	h.pending = nil
	h.minSeen = 0
}

func writeAt(f *mfile, at int, b []byte) {
	for len(f.data) < at {
		f.data = append(f.data, 0)
	}
	n := copy(f.data[at:], b)
	f.data = append(f.data, b[n:]...)
}

var alphabet = []byte("abcdefghijklmnopqrstuvwxyz0123456789     \n\n\n\x00\xff\r\r")

func genBytes(rng *core.SplitMix64, n int, lineLen int) []byte {
	b := make([]byte, n)
	run := 0
	for i := range b {
		c := alphabet[rng.Next()%uint64(len(alphabet))]
		if lineLen > 0 {
			// long lines: suppress newlines until lineLen bytes have passed
			if c == '\n' && run < lineLen {
				c = 'x'
			}
		}
		if c == '\n' {
			run = 0
		} else {
			run++
		}
		b[i] = c
	}
	return b
}

// ---- Lua side ----

const driver = `
local unpack, select, tostring, type = unpack, select, tostring, type
function enc(...)
  local n = select('#', ...)
  local t = {}
  for i = 1, n do
    local v = (select(i, ...))
    local ty = type(v)
    if ty == "nil" then t[i] = "N"
    elseif ty == "string" then t[i] = "S" .. v
    elseif ty == "number" then t[i] = "D" .. string.format("%d", v)
    elseif ty == "boolean" then t[i] = v and "T" or "F"
    elseif ty == "userdata" then t[i] = "U"
    elseif ty == "function" then t[i] = "C"
    else t[i] = "?" .. ty end
  end
  return table.concat(t, "\1")
end
H = {}
`

type luaSide struct {
	L *lua.LState
}

// call runs a Lua snippet that returns enc(...) of the operation's results.
// It reports raised=true when the operation raised an error.
func (ls *luaSide) call(code string) (vals []string, raised bool, msg string, goPanic string) {
	defer func() {
		if r := recover(); r != nil {
			goPanic = fmt.Sprintf("%v\n%s", r, trim(string(debug.Stack()), 1500))
		}
	}()
	fn, err := ls.L.LoadString(code)
	if err != nil {
		return nil, false, "", "harness: snippet does not compile: " + err.Error() + "\n" + code
	}
	ls.L.Push(fn)
	if err := ls.L.PCall(0, 1, nil); err != nil {
		return nil, true, err.Error(), ""
	}
	s := ls.L.ToString(-1)
	ls.L.Pop(1)
	if s == "" {
		return nil, false, "", ""
	}
	return strings.Split(s, "\x01"), false, "", ""
}

func trim(s string, n int) string {
	if len(s) > n {
		return s[:n] + "..."
	}
	return s
}

func q(b []byte) string {
	if len(b) > 60 {
		return fmt.Sprintf("%q...(%d bytes)", b[:60], len(b))
	}
	return fmt.Sprintf("%q", b)
}

func luaStr(b []byte) string {
	var sb strings.Builder
	sb.WriteByte('"')
	for _, c := range b {
		switch {
		case c == '"' || c == '\\':
			sb.WriteByte('\\')
			sb.WriteByte(c)
		case c == '\n':
			sb.WriteString("\\n")
		case c < 32 || c >= 127:
			fmt.Fprintf(&sb, "\\%03d", c)
		default:
			sb.WriteByte(c)
		}
	}
	sb.WriteByte('"')
	return sb.String()
}

var modes = []string{"r", "rb", "w", "wb", "a", "ab", "r+", "rb+", "w+", "wb+", "a+", "ab+"}

func (e *Engine) Run(t *core.Tape, cfg *core.Config, st *core.Stats) (viol *core.Violation) {
	dir, err := os.MkdirTemp("", "iohist")
	if err != nil {
		panic(err)
	}
	defer os.RemoveAll(dir)
	rng := core.NewSplitMix64(uint64(t.Choose(1 << 30)))
	// files
	paths := []string{filepath.Join(dir, "f1.dat"), filepath.Join(dir, "f2.dat")}
	files := map[string]*mfile{}
	exists := map[string]bool{}
	sizes := []int{0, 1, 100, 4095, 4096, 4097, 8191, 8192, 8193, 12000, 50, 5000}
	for i, p := range paths {
		if i == 1 && t.Choose(2) == 0 {
			continue // second file starts absent
		}
		sz := sizes[t.Choose(len(sizes))]
		lineLen := 0
		if t.Choose(3) == 0 {
			lineLen = []int{4090, 4096, 5000, 9000}[t.Choose(4)]
			st.Probe("line_longer_than_buffer_possible")
		}
		b := genBytes(rng, sz, lineLen)
		if err := os.WriteFile(p, b, 0o600); err != nil {
			panic(err)
		}
		files[p] = &mfile{data: b}
		exists[p] = true
	}
	L := lua.NewState()
	defer L.Close()
	if err := L.DoString(driver); err != nil {
		panic(err)
	}
	ls := &luaSide{L: L}
	hs := []*mhandle{{name: "H[1]"}, {name: "H[2]"}, {name: "H[3]"}}
	var log []string
	nreads, nwrites := 0, 0
	fail := func(class, format string, args ...interface{}) *core.Violation {
		return core.Violationf(class, "%s\nhistory (last operations):\n  %s", fmt.Sprintf(format, args...), strings.Join(tailS(log, 40), "\n  "))
	}
	// run one op: code must `return enc(...)`
	type expect struct {
		raise  bool
		soft   bool                     // nil + message
		vals   []string                 // exact encoded values
		accept func(vals []string) bool // alternative acceptance (pending-prefix relaxation)
	}
	do := func(desc, code string, ex expect) *core.Violation {
		log = append(log, desc)
		st.Steps++
		vals, raised, msg, gp := ls.call(code)
		if gp != "" {
			if strings.HasPrefix(gp, "harness:") {
				panic(gp)
			}
			return fail("escape", "%s: Go panic left the call: %s", desc, gp)
		}
		switch {
		case ex.raise:
			if !raised {
				return fail("closed-handle-not-refused", "%s: must raise an error, returned %q", desc, vals)
			}
			return nil
		case raised:
			return fail("unexpected-error", "%s: raised %q, the model expects %s", desc, msg, fmtExpect(ex.soft, ex.vals))
		case ex.soft:
			if len(vals) < 2 || vals[0] != "N" || !strings.HasPrefix(vals[1], "S") {
				return fail("wrong-result", "%s: the model expects a soft failure (nil, message), got %q", desc, vals)
			}
			return nil
		}
		if eqVals(vals, ex.vals) {
			return nil
		}
		if ex.accept != nil && ex.accept(vals) {
			return nil
		}
		return fail("wrong-result", "%s: returned %s, the model expects %s", desc, fmtVals(vals), fmtVals(ex.vals))
	}

	sync := func(h *mhandle) *core.Violation {
		// the seek or flush the statement requires between read and write
		if h.canWrite && t.Bool() {
			h.flushPending()
			was := h.lastOp
			h.lastOp = "sync"
			st.Probe("sync_by_flush")
			return do(fmt.Sprintf("%s:flush()  -- required between a %s and the next operation", h.name, was), fmt.Sprintf("return enc(%s:flush())", h.name), expect{vals: []string{"T"}})
		}
		h.flushPending()
		h.lastOp = "sync"
		st.Probe("sync_by_seek")
		return do(fmt.Sprintf("%s:seek(\"cur\", 0)  -- required between read and write", h.name), fmt.Sprintf("return enc(%s:seek(\"cur\", 0))", h.name), expect{vals: []string{fmt.Sprintf("D%d", h.pos)}})
	}

	// read n bytes at the model cursor
	readN := func(h *mhandle, n int) ([]byte, bool) {
		if h.pos >= len(h.f.data) {
			return nil, true
		}
		end := h.pos + n
		if end > len(h.f.data) {
			end = len(h.f.data)
		}
		b := h.f.data[h.pos:end]
		h.pos = end
		return b, false
	}
	readLine := func(h *mhandle) ([]byte, bool) {
		if h.pos >= len(h.f.data) {
			return nil, true
		}
		rest := h.f.data[h.pos:]
		i := bytes.IndexByte(rest, '\n')
		if i < 0 {
			h.pos = len(h.f.data)
			return rest, false
		}
		h.pos += i + 1
		if i > 4096 {
			st.Probe("line_longer_than_buffer")
		}
		return rest[:i], false
	}

	// numeric scenario: numerals separated by blanks and line ends, read with "*n" (mixed with other formats)
	if t.Choose(4) == 0 {
		var sb strings.Builder
		var nums, puncts []string
		var ends []int
		n := 1 + t.Choose(12)
		for i := 0; i < n; i++ {
			var tok string
			switch rng.Next() % 4 {
			case 0:
				tok = fmt.Sprint(rng.Next() % 1000)
			case 1:
				tok = "-" + fmt.Sprint(1+rng.Next()%50)
			case 2:
				tok = fmt.Sprintf("%d.5", rng.Next()%100)
			default:
				tok = fmt.Sprint(rng.Next() % 10)
			}
			nums = append(nums, tok)
			sb.WriteString(tok)
			ends = append(ends, sb.Len())
			// a numeral ends at a blank or line end, or directly at a byte that cannot continue it
			punct := ""
			if rng.Next()%3 == 0 {
				punct = []string{",", ";", ":", ")", "|"}[rng.Next()%5]
				sb.WriteString(punct)
			}
			puncts = append(puncts, punct)
			if punct == "" || rng.Next()%2 == 0 {
				sb.WriteString([]string{" ", "\n", "  ", "\n\n", "\t", " \n "}[rng.Next()%6])
			}
		}
		// one file in three ends, behind a blank, with the first byte of a two-byte character: the last read("*n")
		// stops inside a character that the end of the file cuts short
		cutChar := t.Choose(3) == 0
		if cutChar {
			if c := sb.String(); len(c) > 0 && c[len(c)-1] != ' ' && c[len(c)-1] != '\n' && c[len(c)-1] != '\t' {
				sb.WriteString(" ")
			}
			sb.WriteString("\xc3")
			st.Probe("numerals_end_inside_a_character")
		}
		np := filepath.Join(dir, "nums.txt")
		content := strings.NewReplacer("\\n", "\n", "\\t", "\t").Replace(sb.String())
		if err := os.WriteFile(np, []byte(content), 0o600); err != nil {
			panic(err)
		}
		st.Probe("numeric_scenario")
		if v := do("N = io.open(\"nums.txt\", \"r\")", fmt.Sprintf("N = io.open(%q, \"r\"); return enc(io.type(N))", np), expect{vals: []string{"Sfile"}}); v != nil {
			return v
		}
		for i := 0; i <= n; i++ {
			want := []string{"N"}
			if i < n {
				f := nums[i]
				if strings.HasSuffix(f, ".5") {
					want = []string{"F" + f}
				} else {
					want = []string{"D" + f}
				}
			}
			if v := do(fmt.Sprintf("N:read(\"*n\")  -- numeral %d of %d", i+1, n), "local v = N:read(\"*n\"); if v and v ~= math.floor(v) then return \"F\" .. tostring(v) end; return enc(v)", expect{vals: want}); v != nil {
				return v
			}
			if i < n && rng.Next()%3 == 0 {
				// the cursor stands right behind the numeral
				if v := do("N:seek(\"cur\", 0)", "return enc(N:seek(\"cur\", 0))", expect{vals: []string{fmt.Sprintf("D%d", ends[i])}}); v != nil {
					return v
				}
				st.Probe("numeric_cursor_checked")
			}
			if i < n && puncts[i] != "" {
				if v := do("N:read(1)  -- the byte that ended the numeral", "return enc(N:read(1))", expect{vals: []string{"S" + puncts[i]}}); v != nil {
					return v
				}
				st.Probe("numeral_ended_by_punctuation")
			}
		}
		if cutChar {
			// wherever the failed numeral left the cursor, an absolute seek defines it again
			any := func([]string) bool { return true }
			if v := do("N:read(1)  -- behind the numeral that failed (any result)", "return enc(N:read(1))", expect{accept: any}); v != nil {
				return v
			}
			for j := 0; j < 2; j++ {
				k := int(rng.Next() % uint64(len(content)))
				if v := do(fmt.Sprintf("N:seek(\"set\", %d)", k), fmt.Sprintf("return enc(N:seek(\"set\", %d))", k), expect{vals: []string{fmt.Sprintf("D%d", k)}}); v != nil {
					return v
				}
				if v := do("N:read(1)  -- the byte at the cursor", "return enc(N:read(1))", expect{vals: []string{"S" + content[k:k+1]}}); v != nil {
					return v
				}
			}
		}
		if v := do("N:close()", "return enc(N:close())", expect{vals: []string{"T"}}); v != nil {
			return v
		}
	}

	nops := 8 + t.Choose(53)
	if t.Choose(10) == 0 {
		// a long history: many operations (and open/close cycles) on the same handles and files
		nops = 200 + t.Choose(400)
		st.Probe("long_history")
	}
	for opi := 0; opi < nops; opi++ {
		h := hs[t.Choose(len(hs))]
		var v *core.Violation
		switch {
		case !h.open && !h.closed, !h.open && h.closed && t.Choose(3) != 0:
			// open
			p := paths[t.Choose(2)]
			mode := modes[t.Choose(len(modes))]
			base := strings.Replace(mode, "b", "", 1)
			desc := fmt.Sprintf("%s = io.open(%q, %q)", h.name, filepath.Base(p), mode)
			code := fmt.Sprintf("local f, e = io.open(%q, %q); %s = f; return enc(f, e)", p, mode, h.name)
			// other already-open handles are only promised nothing stale when nobody writes:
			// several handles share a path only if all of them are read-only
			shared, writer := false, false
			for _, o := range hs {
				if o != h && o.open && o.path == p {
					shared = true
					writer = writer || o.canWrite
				}
			}
			if shared && (base != "r" || writer) {
				break
			}
			if shared {
				st.Probe("two_readers_one_file")
			}
			if (base == "r" || base == "r+") && !exists[p] {
				v = do(desc, code, expect{soft: true})
				*h = mhandle{name: h.name}
				break
			}
			if !exists[p] {
				files[p] = &mfile{}
				exists[p] = true
			}
			f := files[p]
			if base == "w" || base == "w+" {
				// other handles on the same path keep their cursors; the data is gone
				f.data = f.data[:0]
			}
			*h = mhandle{name: h.name, f: f, path: p, open: true, opened: true,
				canRead: base == "r" || strings.HasSuffix(base, "+"), canWrite: base != "r", appendM: base[0] == 'a'}
			v = do(desc, code, expect{vals: []string{"U", "N"}})
			st.Probe("open_" + base)
		case !h.open && h.closed:
			// every operation on a closed handle must raise and leave the file alone
			ops := []string{"read(1)", "write(\"zz\")", "seek(\"set\", 0)", "flush()", "lines()", "close()", "setvbuf(\"no\")", "read(\"*a\")"}
			op := ops[t.Choose(len(ops))]
			st.Probe("op_on_closed_handle")
			if h.hasIter && t.Choose(3) == 0 {
				st.Probe("kept_iterator_after_close")
				v = do(fmt.Sprintf("IT_%s()  -- iterator of a closed handle", h.name[2:3]), fmt.Sprintf("return enc(IT_%s())", h.name[2:3]), expect{raise: true})
				break
			}
			v = do(fmt.Sprintf("%s:%s  -- handle is closed", h.name, op), fmt.Sprintf("return enc(%s:%s)", h.name, op), expect{raise: true})
			if v == nil && t.Choose(4) == 0 {
				v = do(fmt.Sprintf("io.type(%s)", h.name), fmt.Sprintf("return enc(io.type(%s))", h.name), expect{vals: []string{"Sclosed file"}})
			}
		default:
			switch t.Weighted([]int{6, 6, 3, 3, 2, 2, 2, 2, 1, 1, 1, 2}) {
			case 0: // write
				if h.canWrite && h.lastOp == "read" && !h.readEOF {
					if v = sync(h); v != nil {
						break
					}
				}
				n := []int{1, 2, 7, 100, 4095, 4096, 4097, 9000}[t.Weighted([]int{4, 4, 4, 3, 1, 1, 1, 1})]
				var parts [][]byte
				var args []string
				np := 1 + t.Choose(2)
				for i := 0; i < np; i++ {
					if c := t.Choose(12); c == 0 {
						num := t.Choose(100000)
						parts = append(parts, []byte(fmt.Sprint(num)))
						args = append(args, fmt.Sprint(num))
					} else if c == 1 {
						// numbers that are not integers, also with exponents: write puts the number's string form
						// into the file (forms on which Lua 5.1's %.14g and Go's shortest form agree)
						nl := [][2]string{{"0.5", "0.5"}, {"-0.25", "-0.25"}, {"1234.5", "1234.5"}, {"1e-05", "1e-05"}, {"2.5e-07", "2.5e-07"},
							{"1e300", "1e+300"}, {"3.125e-10", "3.125e-10"}, {"-7.5e-06", "-7.5e-06"}, {"1e100", "1e+100"}, {"0.001", "0.001"}}[t.Choose(10)]
						parts = append(parts, []byte(nl[1]))
						args = append(args, nl[0])
						st.Probe("write_non_integer_number")
					} else {
						b := genBytes(rng, n, 0)
						parts = append(parts, b)
						args = append(args, luaStr(b))
					}
				}
				desc := fmt.Sprintf("%s:write(%d part(s), %d bytes) at %d", h.name, np, len(bytes.Join(parts, nil)), h.pos)
				code := fmt.Sprintf("return enc(%s:write(%s))", h.name, strings.Join(args, ", "))
				if !h.canWrite {
					v = do(desc+"  -- read-only handle", code, expect{soft: true})
					break
				}
				if t.Choose(8) == 0 {
					// the same write through the default output file
					desc = fmt.Sprintf("io.output(%s); io.write(%d part(s), %d bytes) at %d", h.name, np, len(bytes.Join(parts, nil)), h.pos)
					code = fmt.Sprintf("io.output(%s); return enc(io.write(%s))", h.name, strings.Join(args, ", "))
					st.Probe("write_through_default_output")
				}
				all := bytes.Join(parts, nil)
				nwrites++
				if h.full {
					if len(h.pending) == 0 {
						h.pendStart = h.pos
						if h.appendM {
							h.pendStart = len(h.f.data)
						}
					}
					h.pending = append(h.pending, all...)
					h.pos = h.pendStart + len(h.pending)
					st.Probe("buffered_write")
				} else {
					at := h.pos
					if h.appendM {
						at = len(h.f.data)
						st.Probe("append_write")
					}
					if at < len(h.f.data) {
						st.Probe("overwrite_in_place")
					}
					writeAt(h.f, at, all)
					h.pos = at + len(all)
				}
				h.lastOp = "write"
				v = do(desc, code, expect{vals: []string{"T"}})
			case 1: // read
				if h.canRead && h.lastOp == "write" {
					if v = sync(h); v != nil {
						break
					}
				}
				kind := t.Choose(5)
				var desc, code string
				var ex expect
				if !h.canRead {
					desc = fmt.Sprintf("%s:read(1)  -- write-only handle", h.name)
					code = fmt.Sprintf("return enc(%s:read(1))", h.name)
					v = do(desc, code, expect{soft: true})
					break
				}
				nreads++
				before := h.pos
				switch kind {
				case 0, 1:
					// (the last three: a count far beyond any file, as a script passes to mean "the rest")
					n := []int{0, 1, 2, 10, 100, 4095, 4096, 4097, 10000, 1 << 31, 1 << 40, 1 << 50}[t.Choose(12)]
					desc = fmt.Sprintf("%s:read(%d) at %d of %d", h.name, n, h.pos, len(h.f.data))
					code = fmt.Sprintf("return enc(%s:read(%d))", h.name, n)
					if t.Choose(8) == 0 {
						// the same read through the default input file
						desc = fmt.Sprintf("io.input(%s); io.read(%d) at %d of %d", h.name, n, h.pos, len(h.f.data))
						code = fmt.Sprintf("io.input(%s); return enc(io.read(%d))", h.name, n)
						st.Probe("read_through_default_input")
					}
					if n == 0 {
						if h.pos >= len(h.f.data) {
							ex = expect{vals: []string{"N"}}
						} else {
							ex = expect{vals: []string{"S"}}
						}
					} else {
						b, eof := readN(h, n)
						if eof {
							ex = expect{vals: []string{"N"}}
						} else {
							ex = expect{vals: []string{"S" + string(b)}}
						}
					}
				case 2:
					desc = fmt.Sprintf("%s:read(\"*l\") at %d of %d", h.name, h.pos, len(h.f.data))
					code = fmt.Sprintf("return enc(%s:read(\"*l\"))", h.name)
					if t.Bool() {
						desc = fmt.Sprintf("%s:read() at %d of %d", h.name, h.pos, len(h.f.data))
						code = fmt.Sprintf("return enc(%s:read())", h.name)
					}
					b, eof := readLine(h)
					if eof {
						ex = expect{vals: []string{"N"}}
					} else {
						ex = expect{vals: []string{"S" + string(b)}}
					}
				case 3:
					desc = fmt.Sprintf("%s:read(\"*a\") at %d of %d", h.name, h.pos, len(h.f.data))
					code = fmt.Sprintf("return enc(%s:read(\"*a\"))", h.name)
					b, _ := readN(h, 1<<30)
					ex = expect{vals: []string{"S" + string(b)}}
				case 4: // two formats in one call
					desc = fmt.Sprintf("%s:read(3, \"*l\") at %d of %d", h.name, h.pos, len(h.f.data))
					code = fmt.Sprintf("return enc(%s:read(3, \"*l\"))", h.name)
					b, eof := readN(h, 3)
					if eof {
						ex = expect{vals: []string{"N"}}
					} else {
						l, eof2 := readLine(h)
						if eof2 {
							ex = expect{vals: []string{"S" + string(b), "N"}}
						} else {
							ex = expect{vals: []string{"S" + string(b), "S" + string(l)}}
						}
					}
				}
				if before/4096 != h.pos/4096 {
					st.Probe("read_across_4096")
				}
				h.readEOF = h.pos >= len(h.f.data)
				h.lastOp = "read"
				v = do(desc, code, ex)
			case 2: // seek
				whence := []string{"set", "cur", "end"}[t.Choose(3)]
				off := []int{0, 1, -1, 5, -5, 100, 4096, -4096, 20000, -20000}[t.Choose(10)]
				desc := fmt.Sprintf("%s:seek(%q, %d) at %d of %d", h.name, whence, off, h.pos, len(h.f.data))
				code := fmt.Sprintf("return enc(%s:seek(%q, %d))", h.name, whence, off)
				h.flushPending()
				base := 0
				switch whence {
				case "cur":
					base = h.pos
				case "end":
					base = len(h.f.data)
				}
				np := base + off
				if np < 0 {
					v = do(desc+"  -- before the start", code, expect{soft: true})
					h.lastOp = "sync"
					break
				}
				if h.lastOp == "read" {
					st.Probe("seek_after_read")
				}
				h.pos = np
				h.lastOp = "sync"
				if np > len(h.f.data) {
					st.Probe("seek_past_eof")
				}
				v = do(desc, code, expect{vals: []string{fmt.Sprintf("D%d", np)}})
			case 3: // flush
				desc := fmt.Sprintf("%s:flush()", h.name)
				code := fmt.Sprintf("return enc(%s:flush())", h.name)
				if !h.canWrite {
					v = do(desc+"  -- read-only handle", code, expect{soft: true})
					break
				}
				h.flushPending()
				if h.lastOp == "read" {
					st.Probe("flush_after_read")
				}
				h.lastOp = "sync"
				v = do(desc, code, expect{vals: []string{"T"}})
			case 4: // lines for j steps
				if h.canRead && h.lastOp == "write" {
					if v = sync(h); v != nil {
						break
					}
				}
				if !h.canRead {
					break
				}
				j := 1 + t.Choose(4)
				var want []string
				for i := 0; i < j; i++ {
					b, eof := readLine(h)
					if eof {
						want = append(want, "N")
					} else {
						want = append(want, "S"+string(b))
					}
				}
				nreads++
				h.readEOF = h.pos >= len(h.f.data)
				h.lastOp = "read"
				v = do(fmt.Sprintf("%s:lines() consumed for %d steps", h.name, j),
					fmt.Sprintf("local it = %s:lines(); local r = {}; for i = 1, %d do r[i] = it() end; return enc(unpack(r, 1, %d))", h.name, j, j), expect{vals: want})
			case 5: // setvbuf at any time: bytes already written stay written
				if !h.canWrite {
					break
				}
				if len(h.pending) > 0 {
					st.Probe("setvbuf_with_pending_bytes")
					h.flushPending()
				}
				if t.Bool() {
					sz := []int{1, 16, 4096, 4097}[t.Choose(4)]
					h.full = true
					v = do(fmt.Sprintf("%s:setvbuf(\"full\", %d)", h.name, sz), fmt.Sprintf("return enc(%s:setvbuf(\"full\", %d))", h.name, sz), expect{vals: []string{"T"}})
				} else {
					h.full = false
					v = do(fmt.Sprintf("%s:setvbuf(\"no\")", h.name), fmt.Sprintf("return enc(%s:setvbuf(\"no\"))", h.name), expect{vals: []string{"T"}})
				}
			case 6: // close
				h.flushPending()
				h.open, h.closed = false, true
				v = do(fmt.Sprintf("%s:close()", h.name), fmt.Sprintf("return enc(%s:close())", h.name), expect{vals: []string{"T"}})
				if v == nil {
					v = e.checkDisk(h.path, h.f, hs, fail)
				}
			case 7: // durability probe: a freshly opened handle sees flushed / unbuffered bytes
				p := h.path
				f := h.f
				desc := fmt.Sprintf("io.open(%q, \"rb\"):read(\"*a\")  -- second handle", filepath.Base(p))
				code := fmt.Sprintf("local f = io.open(%q, \"rb\"); local s = f:read(\"*a\"); f:close(); return enc(s)", p)
				ex := expect{vals: []string{"S" + string(f.data)}}
				// bytes pending in a full buffer of the (single) writer on this file may be partly
				// visible: model-durable bytes plus some prefix of the pending bytes, monotone over time
				for _, o := range hs {
					if o.open && o.f == f && len(o.pending) > 0 {
						o := o
						st.Probe("second_handle_before_flush")
						ex.accept = func(vals []string) bool {
							if len(vals) != 1 || !strings.HasPrefix(vals[0], "S") {
								return false
							}
							got := []byte(vals[0][1:])
							at := o.pendStart
							if o.appendM {
								at = len(f.data)
							}
							for pfx := o.minSeen; pfx <= len(o.pending); pfx++ {
								if overlayEqual(got, f.data, at, o.pending[:pfx]) {
									o.minSeen = pfx
									return true
								}
							}
							return false
						}
					}
				}
				st.Probe("second_handle_probe")
				v = do(desc, code, ex)
			case 8: // io.lines(path)
				p := h.path
				f := h.f
				pendingAny := false
				for _, o := range hs {
					if o.open && o.f == f && len(o.pending) > 0 {
						pendingAny = true
					}
				}
				if pendingAny {
					break
				}
				var want []string
				rest := f.data
				for len(rest) > 0 {
					i := bytes.IndexByte(rest, '\n')
					if i < 0 {
						want = append(want, "S"+string(rest))
						break
					}
					want = append(want, "S"+string(rest[:i]))
					rest = rest[i+1:]
				}
				if len(want) > 200 {
					break
				}
				v = do(fmt.Sprintf("for l in io.lines(%q)", filepath.Base(p)),
					fmt.Sprintf("local r = {}; for l in io.lines(%q) do r[#r + 1] = l end; return enc(unpack(r))", p), expect{vals: want})
			case 9:
				v = do(fmt.Sprintf("io.type(%s)", h.name), fmt.Sprintf("return enc(io.type(%s))", h.name), expect{vals: []string{"Sfile"}})
			case 10: // obtain a line iterator and keep it; it is called later (also after the handle was closed)
				if !h.canRead {
					break
				}
				h.hasIter = true
				v = do(fmt.Sprintf("IT_%s = %s:lines()", h.name[2:3], h.name), fmt.Sprintf("IT_%s = %s:lines(); return enc(type(IT_%s))", h.name[2:3], h.name, h.name[2:3]), expect{vals: []string{"Sfunction"}})
			case 11: // call the kept iterator
				if !h.hasIter {
					break
				}
				if h.lastOp == "write" {
					if v = sync(h); v != nil {
						break
					}
				}
				b, eof := readLine(h)
				h.readEOF = h.pos >= len(h.f.data)
				h.lastOp = "read"
				nreads++
				st.Probe("kept_iterator_called")
				if eof {
					v = do(fmt.Sprintf("IT_%s()  -- kept iterator at end of file", h.name[2:3]), fmt.Sprintf("return enc(IT_%s())", h.name[2:3]), expect{vals: []string{"N"}})
				} else {
					v = do(fmt.Sprintf("IT_%s()  -- kept iterator", h.name[2:3]), fmt.Sprintf("return enc(IT_%s())", h.name[2:3]), expect{vals: []string{"S" + string(b)}})
				}
			}
		}
		if v != nil {
			return v
		}
	}
	// close everything; the bytes on disk must equal the model's
	for _, h := range hs {
		if h.open {
			h.flushPending()
			h.open, h.closed = false, true
			if v := do(fmt.Sprintf("%s:close()  -- end of history", h.name), fmt.Sprintf("return enc(%s:close())", h.name), expect{vals: []string{"T"}}); v != nil {
				return v
			}
		}
	}
	for p, f := range files {
		if v := e.checkDisk(p, f, hs, fail); v != nil {
			return v
		}
	}
	// epilogue, one history in three: the disk fills up while close() writes out what a fully buffered handle still
	// holds. The close fails; the handle is closed all the same (as after fclose): every later operation on it raises,
	// also an iterator obtained earlier, its descriptor is released, and the file holds what it held plus a prefix
	// of the bytes that were pending.
	if t.Choose(3) == 0 {
		if v := e.fullDisk(t, st, ls, dir, rng, fail, &log); v != nil {
			return v
		}
	}
	st.Evals++
	st.D(uint64(core.NewHash().Str(strings.Join(log, "\n"))))
	if nreads > 0 && nwrites > 0 {
		st.Distinct(uint64(core.NewHash().Str(strings.Join(log, "\n"))))
	}
	if st.WantSample() && len(log) > 5 {
		st.Sample(map[string]interface{}{"history": log})
	}
	return nil
}

func (e *Engine) checkDisk(p string, f *mfile, hs []*mhandle, fail func(string, string, ...interface{}) *core.Violation) *core.Violation {
	for _, o := range hs {
		if o.open && o.f == f && len(o.pending) > 0 {
			return nil // bytes still buffered elsewhere: the on-disk state is a set, checked by the probes
		}
	}
	got, err := os.ReadFile(p)
	if err != nil {
		return fail("disk-mismatch", "cannot read %s back: %v", filepath.Base(p), err)
	}
	if !bytes.Equal(got, f.data) {
		i := 0
		for i < len(got) && i < len(f.data) && got[i] == f.data[i] {
			i++
		}
		return fail("disk-mismatch", "bytes on disk of %s differ from the model: disk has %d bytes, model %d, first difference at offset %d (disk %s, model %s)",
			filepath.Base(p), len(got), len(f.data), i, q(got[i:min(len(got), i+20)]), q(f.data[i:min(len(f.data), i+20)]))
	}
	return nil
}

// overlayEqual: got == data with ov written at offset at (zero-filled gap).
func overlayEqual(got, data []byte, at int, ov []byte) bool {
	n := len(data)
	if len(ov) > 0 && at+len(ov) > n {
		n = at + len(ov)
	}
	if len(got) != n {
		return false
	}
	for i := 0; i < n; i++ {
		var c byte
		switch {
		case i >= at && i < at+len(ov):
			c = ov[i-at]
		case i < len(data):
			c = data[i]
		}
		if got[i] != c {
			return false
		}
	}
	return true
}

func min(a, b int) int {
	if a < b {
		return a
	}
	return b
}

func eqVals(a, b []string) bool {
	if len(a) != len(b) {
		return false
	}
	for i := range a {
		if a[i] != b[i] {
			return false
		}
	}
	return true
}

func fmtVals(v []string) string {
	parts := make([]string, len(v))
	for i, s := range v {
		if len(s) > 70 {
			parts[i] = fmt.Sprintf("%q...(%d bytes)", s[:70], len(s)-1)
		} else {
			parts[i] = fmt.Sprintf("%q", s)
		}
	}
	return "[" + strings.Join(parts, ", ") + "]"
}

func fmtExpect(soft bool, v []string) string {
	if soft {
		return "a soft failure (nil, message)"
	}
	return fmtVals(v)
}

func tailS(s []string, n int) []string {
	if len(s) > n {
		return s[len(s)-n:]
	}
	return s
}

func openFDs() int {
	ents, err := os.ReadDir("/proc/self/fd")
	if err != nil {
		return -1
	}
	return len(ents)
}

func (e *Engine) fullDisk(t *core.Tape, st *core.Stats, ls *luaSide, dir string, rng *core.SplitMix64, fail func(string, string, ...interface{}) *core.Violation, log *[]string) *core.Violation {
	p := filepath.Join(dir, "f3.dat")
	mode := []string{"w", "w+", "a", "a+", "r+"}[t.Choose(5)]
	old := genBytes(rng, []int{0, 7, 100, 4096, 5000}[t.Choose(5)], 0)
	if len(old) > 0 && old[len(old)-1] != '\n' {
		old[len(old)-1] = '\n'
	}
	if err := os.WriteFile(p, old, 0o600); err != nil {
		panic(err)
	}
	if mode == "w" || mode == "w+" {
		old = nil
	}
	pending := genBytes(rng, []int{1, 10, 300, 4096, 9000}[t.Choose(5)], 0)
	room := t.Choose(len(pending)) // how many of the pending bytes still fit
	keepIter := mode != "w" && mode != "a"
	note := func(format string, args ...interface{}) { *log = append(*log, fmt.Sprintf(format, args...)) }
	run := func(desc, code string) ([]string, bool, *core.Violation) {
		note("%s", desc)
		vals, raised, _, gp := ls.call(code)
		if gp != "" {
			if strings.HasPrefix(gp, "harness:") {
				panic(gp)
			}
			return nil, false, fail("escape", "%s: Go panic left the call: %s", desc, gp)
		}
		return vals, raised, nil
	}
	fds0 := openFDs()
	setup := fmt.Sprintf("F3 = assert(io.open(%q, %q)) F3:setvbuf('full', 65536) ", p, mode)
	if keepIter {
		setup += "IT3 = F3:lines() "
	}
	setup += fmt.Sprintf("F3:seek('end') return enc(F3:write(%s))", luaStr(pending))
	if vals, raised, v := run(fmt.Sprintf("F3 = io.open(f3.dat, %q); setvbuf full; seek end; write(%d bytes)  -- stays in the buffer", mode, len(pending)), setup); v != nil {
		return v
	} else if raised || len(vals) == 0 || vals[0] != "T" && vals[0] != "U" {
		return fail("wrong-result", "full-disk epilogue: the buffered write on a fresh handle did not succeed: %q raised=%v", vals, raised)
	}
	var lim0 syscall.Rlimit
	if err := syscall.Getrlimit(syscall.RLIMIT_FSIZE, &lim0); err != nil {
		return nil
	}
	lim := syscall.Rlimit{Cur: uint64(len(old) + room), Max: lim0.Max}
	if err := syscall.Setrlimit(syscall.RLIMIT_FSIZE, &lim); err != nil {
		return nil
	}
	// the disk is full either when close() flushes, or already at an explicit flush() that precedes the close
	viaFlush := t.Choose(3) == 0
	op := "close"
	if viaFlush {
		op = "flush"
	}
	vals, raised, v := run(fmt.Sprintf("F3:%s()  -- the file may not grow beyond %d bytes: %d of the %d pending bytes fit", op, len(old)+room, room, len(pending)), "return enc(F3:"+op+"())")
	syscall.Setrlimit(syscall.RLIMIT_FSIZE, &lim0)
	st.Fault("disk_full_at_" + op)
	if v != nil {
		return v
	}
	if !raised && !(len(vals) >= 1 && vals[0] == "N") {
		return fail("lost-write-not-reported", "full-disk epilogue: %s() reported success (%q) although only %d of the %d buffered bytes fit on the disk", op, vals, room, len(pending))
	}
	closeOK := false
	if viaFlush {
		// there is room again; the close that follows may fail (the buffered writer remembers its error) or write the rest
		vals, raised, v := run("F3:close()  -- after the failed flush, with room on the disk again", "return enc(F3:close())")
		if v != nil {
			return v
		}
		closeOK = !raised && len(vals) >= 1 && vals[0] == "T"
	}
	for _, op := range []string{"F3:write('x')", "F3:read(1)", "F3:seek('set', 0)", "F3:flush()", "F3:lines()", "F3:close()", "F3:setvbuf('no')"} {
		if _, raised, v := run(op+"  -- after the failed close", "return enc("+op+")"); v != nil {
			return v
		} else if !raised {
			return fail("closed-handle-not-refused", "full-disk epilogue: %s after a close() that failed must raise an error like any operation on a closed handle", op)
		}
	}
	if vals, _, v := run("io.type(F3)", "return enc(io.type(F3))"); v != nil {
		return v
	} else if len(vals) != 1 || vals[0] != "Sclosed file" {
		return fail("wrong-result", "full-disk epilogue: io.type of the handle after the failed close is %q", vals)
	}
	if keepIter {
		if _, raised, v := run("IT3()  -- iterator obtained before the close", "return enc(IT3())"); v != nil {
			return v
		} else if !raised {
			return fail("closed-handle-not-refused", "full-disk epilogue: the iterator that F3:lines() returned before the close must raise once the handle is closed; it read from the file instead")
		}
	}
	if n := openFDs(); fds0 >= 0 && n > fds0 {
		st.Probe("descriptor_still_open_after_failed_close") // (not a clause of the property: reported, not judged)
	}
	got, err := os.ReadFile(p)
	if err != nil {
		panic(err)
	}
	want := append(append([]byte(nil), old...), pending...)
	if closeOK {
		if !bytes.Equal(got, want) {
			return fail("lost-write-not-reported", "full-disk epilogue: the close() after the failed flush reported success, but the file holds %d bytes instead of the %d it held plus all %d that were pending", len(got), len(old), len(pending))
		}
		return nil
	}
	if len(got) < len(old) || len(got) > len(want) || !viaFlush && len(got) > len(old)+room || !bytes.Equal(got, want[:len(got)]) {
		return fail("disk-mismatch", "full-disk epilogue: the file holds %d bytes; it must hold the %d it held plus a prefix (at most %d bytes) of what was pending", len(got), len(old), room)
	}
	return nil
}
