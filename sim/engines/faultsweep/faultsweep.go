// Package faultsweep is the engine for C05 (containment profile) and C03
// (closure profile): per generated program, every instruction boundary and
// every host call is used as the single fault point; the implementation's trace
// must lie in the set of traces the reference model produces with one abort.
package faultsweep

import (
	"fmt"
	"strings"

	lua "github.com/yuin/gopher-lua"

	"luasim/core"
	"luasim/hostapi"
	"luasim/ir"
	"luasim/model"
)

type Engine struct {
	prop    string
	profile string
}

func New(prop, profile string) func() core.Engine {
	return func() core.Engine { return &Engine{prop: prop, profile: profile} }
}

func (e *Engine) Name() string         { return "faultsweep/" + e.profile }
func (e *Engine) Properties() []string { return []string{e.prop} }
func (e *Engine) Level() string {
	if e.prop == "C05" {
		return "fault_enumeration"
	}
	return "exploration"
}
func (e *Engine) Rule() string {
	return "one run = one SimLua program drawn from the tape (profile " + e.profile + "), rendered under a drawn layout and state Options; it is executed fault-free (trace must equal the reference model's) and then once per fault point: a one-shot error raised at every VM instruction boundary k in 1..S (stride above 1500 steps, plus neighbourhoods), sticky cancellation at sampled k, and 8 host-originated fault kinds (Go panic with string/error/nil-dereference, RaiseError, Error with table/number/false/nil) at every host-function call h in 1..H; each faulted trace must be in the acceptable set A computed by running the model with an abort at every micro-step. distinct_nontrivial = number of distinct (program hash, fault kind, fault point) triples in which the fault actually fired, counted as distinct programs weighted by their fired fault points"
}
func (e *Engine) RealComponents() []string {
	return []string{"lexer/parser/compiler", "VM main loops", "PCall/xpcall/pcall recovery", "raiseError/closeUpvalues", "coroutine library and threadRun", "callGFunction/callR re-entry", "table.sort, string.gsub, metamethod dispatch", "registry and call-frame stacks"}
}
func (e *Engine) StubComponents() []string {
	return []string{"context.Context (SimContext fired at a chosen instruction index)", "host functions emit/snap/clobber/luadepth/hostcall/hostpcall (harness-owned observers and fault sites)"}
}
func (e *Engine) Assumptions() []string {
	return []string{"the reference model covers SimLua, not all of Lua; behaviour outside it is not judged",
		"single faults only (double faults only as a fault inside an xpcall handler and as sticky cancellation)",
		"error message wording is not compared, only position, identity of intended messages and the class of everything else"}
}

type optVariant struct {
	name  string
	o     lua.Options
	entry int // Go-side protected entry point style (hostapi.Host.Entry)
	junk  int
}

func drawOptions(t *core.Tape) optVariant {
	ov := drawLuaOptions(t)
	ov.entry = t.Choose(7)
	ov.junk = []int{0, 0, 1, 3}[t.Choose(4)]
	ov.name = fmt.Sprintf("%s/entry%d/junk%d", ov.name, ov.entry, ov.junk)
	return ov
}

func drawLuaOptions(t *core.Tape) optVariant {
	switch t.Choose(6) {
	case 1:
		return optVariant{name: "autogrow-stack", o: lua.Options{CallStackSize: 120, MinimizeStackMemory: true, RegistrySize: 1024, RegistryMaxSize: 1024 * 80, RegistryGrowStep: 32}}
	case 2:
		// the registry (of the main thread and of every coroutine) starts far below what the program needs and
		// grows in small steps, so that growth happens at many different points of a run
		size := []int{32, 64, 128, 300}[t.Choose(4)]
		step := []int{1, 7, 33}[t.Choose(3)]
		return optVariant{name: fmt.Sprintf("tiny-growing-registry-%d+%d", size, step), o: lua.Options{CallStackSize: 100, RegistrySize: size, RegistryMaxSize: 1024 * 80, RegistryGrowStep: step}}
	case 3:
		return optVariant{name: "defaults", o: lua.Options{CallStackSize: lua.CallStackSize, RegistrySize: lua.RegistrySize}}
	case 4:
		return optVariant{name: "autogrow+tinyreg", o: lua.Options{CallStackSize: 64, MinimizeStackMemory: true, RegistrySize: []int{48, 300}[t.Choose(2)], RegistryMaxSize: 1024 * 80, RegistryGrowStep: 33}}
	}
	return optVariant{name: "small", o: hostapi.SmallOptions()}
}

type runOut struct {
	trace []string
	out   hostapi.Outcome
	h     *hostapi.Host
	hash  uint64
	viol  []string
}

// reattachOK: the program of the current run creates no coroutines. Coroutines created before a context is attached
// are promised nothing about it, so the context is replaced in mid-run only under programs without coroutines
// (set per run; workers are single-threaded).
var reattachOK bool

// curSrc: the text of the current run's program (entry style 6 runs it through DoString)
var curSrc string

func setReattachOK(prog *ir.Program) {
	reattachOK = true
	for f := range prog.Features {
		for _, w := range []string{"corout", "wrap", "resume", "yield", "generation", "thread", "sibling"} {
			if strings.Contains(f, w) {
				reattachOK = false
			}
		}
	}
}

// second fault of a two-fault run (set around execVM by the two-fault phase; the worker is single-threaded)
var kind2 int
var at2 int64

func execVM(proto *lua.FunctionProto, ov optVariant, kind int, at int64, maxSteps int64, withCtx bool) *runOut {
	var reattach int64
	if kind == hostapi.VCancel && at%2 == 0 && reattachOK {
		// every second cancellation point: the host replaces the context in mid-run (at the first or second host
		// call of the main thread); the cancellation then arrives through the new context
		reattach = 1 + (at/2)%2
	}
	h := hostapi.NewHost(hostapi.Options{LuaOptions: ov.o, Kind: kind, At: at, MaxSteps: maxSteps, WithContext: withCtx, ReattachAtHostCall: reattach})
	h.Entry, h.EntryJunk = ov.entry, ov.junk
	h.Kind2, h.At2 = kind2, at2
	if ov.entry == 6 {
		h.Source = curSrc
	}
	out := h.RunProto(proto)
	r := &runOut{trace: h.Trace, out: out, h: h, viol: h.Violations}
	r.hash = model.HashTrace(h.Trace, out.TopError)
	return r
}

func fmtTrace(tr []string, top string) string {
	var sb strings.Builder
	for i, s := range tr {
		if i > 120 {
			fmt.Fprintf(&sb, "  ... (%d more)\n", len(tr)-i)
			break
		}
		fmt.Fprintf(&sb, "  %s\n", s)
	}
	if top != "" {
		fmt.Fprintf(&sb, "  TOP-ERROR: %s\n", top)
	}
	return sb.String()
}

func diffTraces(a, b []string) string {
	n := len(a)
	if len(b) < n {
		n = len(b)
	}
	for i := 0; i < n; i++ {
		if a[i] != b[i] {
			return fmt.Sprintf("first difference at emit #%d: implementation %q, model %q", i+1, a[i], b[i])
		}
	}
	if len(a) != len(b) {
		return fmt.Sprintf("traces agree on the first %d emits; implementation has %d, model has %d", n, len(a), len(b))
	}
	return "emit sequences are equal (difference is in the top-level outcome)"
}

type accSet struct {
	hashes   map[uint64]int64 // trace hash -> smallest micro-step producing it
	ctx      map[uint64]string
	n        int64
	maxSteps int64 // longest model run with one abort (a fault may steer the program into a longer path)
}

// buildAcceptable runs the model with an abort at every micro-step (or every
// host-call micro-step for host kinds) and collects the trace hashes.
func buildAcceptable(p *ir.Program, mkind int, free *model.Result, maxSteps int64) (*accSet, bool) {
	a := &accSet{hashes: map[uint64]int64{}, ctx: map[uint64]string{}}
	limit := free.Steps
	if model.IsHostKind(mkind) {
		limit = free.HostSteps
	}
	orders := []bool{false}
	if p.MultiAssign {
		orders = []bool{false, true}
	}
	for _, rtl := range orders {
		for m := int64(1); m <= limit; m++ {
			r := model.Run(p, model.Options{FaultKind: mkind, FaultAt: m, StoreRTL: rtl, MaxSteps: maxSteps})
			if r.Runaway {
				return nil, false
			}
			if _, ok := a.hashes[r.TraceHash]; !ok {
				a.hashes[r.TraceHash] = m
				a.ctx[r.TraceHash] = r.FiredCtx
			}
			if r.Steps > a.maxSteps {
				a.maxSteps = r.Steps
			}
			a.n++
		}
	}
	// a fault point past the end of the program never fires: the fault-free trace is acceptable too
	a.hashes[free.TraceHash] = 0
	return a, true
}

const postProbe = `emit("post", 1 + 1)
local ok, e = pcall(error, "PX", 0)
emit("post2", ok, e)
local c = coroutine.wrap(function(a) local b = coroutine.yield(a + 1) return b * 2 end)
emit("post3", c(1), c(5))
`

var postProto *lua.FunctionProto

// manyUpvalues: a closure that mentions 250-262 variables of two enclosing functions. Either the compiler refuses the
// text (only allowed above 255, the most a prototype can record) or every closure sees its own variables.
func manyUpvalues(t *core.Tape, st *core.Stats) *core.Violation {
	const na = 130
	k := 120 + t.Choose(13)
	var sb strings.Builder
	names := func(p string, n int) string {
		parts := make([]string, n)
		for i := range parts {
			parts[i] = fmt.Sprintf("%s%d", p, i+1)
		}
		return strings.Join(parts, ", ")
	}
	vals := func(base, n int) string {
		parts := make([]string, n)
		for i := range parts {
			parts[i] = fmt.Sprint(base + i + 1)
		}
		return strings.Join(parts, ", ")
	}
	sum := strings.Replace(names("a", na), ", ", " + ", -1) + " + " + strings.Replace(names("b", k), ", ", " + ", -1)
	fmt.Fprintf(&sb, "local emit = emit\nlocal %s = %s\nlocal function f()\n  local %s = %s\n  local h = function() b1 = b1 + 1 return b1 end\n  local g = function() return %s end\n  return h, g\nend\nlocal h, g = f()\nemit(\"up\", h(), g(), h())\n",
		names("a", na), vals(0, na), names("b", 130), vals(1000, 130), sum)
	st.Probe("closure_with_250_to_262_upvalues")
	proto, err := hostapi.Compile(sb.String())
	if err != nil {
		if na+k > 255 && strings.Contains(err.Error(), "upvalue") {
			return nil
		}
		return core.Violationf("rejects-valid", "a closure over %d variables of enclosing functions does not compile: %v", na+k, err)
	}
	h := hostapi.NewHost(hostapi.Options{LuaOptions: hostapi.SmallOptions(), MaxSteps: 100000})
	out := h.RunProto(proto)
	want := fmt.Sprintf("E:'up',1002,%d,1003", na*(na+1)/2+1000*k+k*(k+1)/2+1)
	if out.Escaped != "" || out.TopError != "" || len(h.Trace) != 1 || h.Trace[0] != want {
		return core.Violationf("trace-mismatch", "a closure over %d variables of two enclosing functions (130 of the chunk, %d of the function): got trace %v error %q escaped %q, want %s", na+k, k, h.Trace, out.TopError, out.Escaped, want)
	}
	return nil
}

func (e *Engine) Run(t *core.Tape, cfg *core.Config, st *core.Stats) *core.Violation {
	if e.profile == "closure" && len(cfg.Aux) == 0 && t.Choose(40) == 0 {
		return manyUpvalues(t, st)
	}
	prof := ir.ProfileFor(e.profile)
	prof.Disabled = cfg.Disabled
	prog := ir.Generate(t, prof)
	lay := ir.DrawLayout(t)
	ov := drawOptions(t)
	rend := ir.Render(prog, lay)
	src := rend.Source
	progHash := uint64(core.NewHash().Str(src).Str(ov.name))

	proto, err := hostapi.CompileFromFile(src) // through LoadFile behind a '#' line when the text has a header line
	if err != nil {
		return core.Violationf("rejects-valid", "generated program does not compile: %v\n%s", err, src)
	}
	setReattachOK(prog)
	curSrc = src
	for f, n := range prog.Features {
		st.ProbeN("feature_"+f, n)
	}
	st.Probe("options_" + strings.SplitN(ov.name, "/", 2)[0])
	st.Probe(fmt.Sprintf("go_entry_style_%d", ov.entry))

	// fault-free run, no context
	const hardCap = 60000
	r0 := execVM(proto, ov, hostapi.VNone, 0, hardCap, false)
	st.Evals++
	st.Steps += r0.h.Steps
	if r0.h.Runaway {
		st.Discarded++
		return nil
	}
	free := model.Run(prog, model.Options{MaxSteps: 400000})
	if free.Runaway {
		st.Discarded++
		return nil
	}
	desc := func() string {
		return fmt.Sprintf("options=%s layout={indent:%q eol:%q pad:%d}\n--- program ---\n%s", ov.name, lay.Indent, lay.EOL, lay.PadLocals, src)
	}
	if r0.out.Escaped != "" {
		return core.Violationf("escape", "fault-free run: a Go panic left the top-level PCall: %s\n%s", r0.out.Escaped, desc())
	}
	if len(r0.viol) > 0 {
		return core.Violationf(violClass(r0.viol[0]), "fault-free run: %s\n%s", r0.viol[0], desc())
	}
	if r0.hash != free.TraceHash {
		return core.Violationf("trace-mismatch", "fault-free run differs from the reference model: %s\nimplementation:\n%smodel:\n%s%s",
			diffTraces(r0.trace, free.Trace), fmtTrace(r0.trace, r0.out.TopError), fmtTrace(free.Trace, free.TopError), desc())
	}
	S := r0.h.Steps
	H := r0.h.HostCalls
	st.D(r0.hash)
	if S > 6000 || (!cfg.Thorough && S > 2500) {
		st.Discarded++ // keeps the per-run cost (one model run per micro-step) bounded
		return nil
	}
	if H != free.HostSteps {
		return core.Violationf("trace-mismatch", "fault-free run made %d host calls, the model %d\n%s", H, free.HostSteps, desc())
	}
	// a fault may steer the program into a path that is much longer than the fault-free one: the step budget
	// of a faulted run is generous, and a run that exhausts it is a violation only if the model says that no
	// single-fault run of this program is long (60 VM steps per model micro-step is far above what is observed)
	maxSteps := S*4 + 10000
	if maxSteps < 150000 {
		maxSteps = 150000
	}

	// attaching an undone context must not change behaviour
	if t.Choose(4) == 0 {
		rc := execVM(proto, ov, hostapi.VNone, 0, hardCap, true)
		st.Evals++
		st.Steps += rc.h.Steps
		if rc.hash != r0.hash || rc.out.Escaped != "" || len(rc.viol) > 0 {
			return core.Violationf("context-changes-behaviour", "run with an (undone) context attached differs: %s\n%s", diffTraces(rc.trace, r0.trace), desc())
		}
	}

	acc := map[int]*accSet{}
	getAcc := func(mk int) *accSet {
		if a, ok := acc[mk]; ok {
			return a
		}
		a, ok := buildAcceptable(prog, mk, free, 400000)
		if !ok {
			a = nil
		}
		acc[mk] = a
		return a
	}

	fired := 0
	check := func(kind int, at int64) *core.Violation {
		a := getAcc(hostapi.ModelKind(kind))
		if a == nil {
			return nil
		}
		r := execVM(proto, ov, kind, at, maxSteps, kind == hostapi.VCancel)
		st.Evals++
		st.Steps += r.h.Steps
		st.D(r.hash)
		kn := hostapi.VKindNames[kind]
		where := fmt.Sprintf("fault %s=%d (of S=%d steps, H=%d host calls)", kn, at, S, H)
		mk := func(class, format string, args ...interface{}) *core.Violation {
			v := core.Violationf(class, "%s: %s\n%s", where, fmt.Sprintf(format, args...), desc())
			// replay tape: same program, single fault selected
			v.Draws = nil
			return v
		}
		if !r.h.Fired {
			return nil
		}
		fired++
		st.Fault(kn)
		if r.out.Escaped != "" {
			return mk("escape", "a Go panic left the top-level PCall: %s", r.out.Escaped)
		}
		if r.h.Runaway {
			if a.maxSteps*60 >= maxSteps {
				st.Probe("long_fault_path_discarded")
				return nil
			}
			return mk("runaway-after-fault", "the run did not finish within %d steps after a single fault (the longest single-fault run of the reference model takes %d micro-steps)", maxSteps, a.maxSteps)
		}
		if len(r.viol) > 0 {
			return mk(violClass(r.viol[0]), "%s", r.viol[0])
		}
		m, ok := a.hashes[r.hash]
		if !ok {
			return mk("fault-trace-not-acceptable", "the trace after the fault is none of the %d traces the reference model produces with one abort at any micro-step (%d distinct)\nimplementation trace:\n%sfault-free trace:\n%s",
				a.n, len(a.hashes), fmtTrace(r.trace, r.out.TopError), fmtTrace(free.Trace, free.TopError))
		}
		if c := a.ctx[r.hash]; c != "" && m > 0 {
			st.Probe("fault_in_" + c)
		}
		if kind == hostapi.VCancel {
			// the state must stay usable: fresh context, second chunk
			if v := e.postCancel(r.h, where, desc); v != nil {
				return v
			}
		} else if r.out.TopError != "" && at%4 == 0 {
			// the error value that reached the Go caller stays what it is while a second chunk (with contained
			// errors of its own) runs on the same state
			if v := e.postError(r.h, where, desc); v != nil {
				return v
			}
			if d := r.h.KeptErrorChanged(); d != "" {
				return mk("go-error-value-changed", "%s", d)
			}
		}
		return nil
	}

	// ---- two faults in sequence: the second one arrives while, or after, the first one is being handled ----
	pairKinds := [][2]int{
		{hostapi.VRaise, hostapi.VRaise},
		{hostapi.VRaise, hostapi.VRaiseError},
		{hostapi.VErrorTable, hostapi.VRaise},
		{hostapi.VRaise, hostapi.VCancel},
		{hostapi.VErrorNumber, hostapi.VErrorTable},
		{hostapi.VGoPanicString, hostapi.VRaise},
		{hostapi.VRaiseError, hostapi.VGoPanicError},
	}
	type acc2T struct {
		set map[uint64]struct{}
		n   int64
	}
	acc2 := map[[2]int]*acc2T{}
	capRuns := int64(12000)
	if cfg.Thorough {
		capRuns = 50000
	}
	getAcc2 := func(k1, k2 int) *acc2T {
		key := [2]int{k1, k2}
		if a, ok := acc2[key]; ok {
			return a
		}
		acc2[key] = nil
		mk1, mk2 := hostapi.ModelKind(k1), hostapi.ModelKind(k2)
		a := &acc2T{set: map[uint64]struct{}{free.TraceHash: {}}}
		lim1 := free.Steps
		if model.IsHostKind(mk1) {
			lim1 = free.HostSteps
		}
		orders := []bool{false}
		if prog.MultiAssign {
			orders = []bool{false, true}
		}
		for _, rtl := range orders {
			for m1 := int64(1); m1 <= lim1; m1++ {
				r1 := model.Run(prog, model.Options{FaultKind: mk1, FaultAt: m1, StoreRTL: rtl, MaxSteps: 400000})
				if r1.Runaway {
					return nil
				}
				a.set[r1.TraceHash] = struct{}{} // the second fault point may lie past the end of the run
				if !r1.Fired {
					continue
				}
				lim2, from := r1.Steps, int64(1)
				if model.IsHostKind(mk2) {
					lim2 = r1.HostSteps
					if model.IsHostKind(mk1) {
						from = m1 + 1
					}
				} else if !model.IsHostKind(mk1) {
					from = m1 + 1
				}
				for m2 := from; m2 <= lim2; m2++ {
					r2 := model.Run(prog, model.Options{FaultKind: mk1, FaultAt: m1, Fault2Kind: mk2, Fault2At: m2, StoreRTL: rtl, MaxSteps: 400000})
					if r2.Runaway {
						return nil
					}
					a.set[r2.TraceHash] = struct{}{}
					a.n++
					if a.n > capRuns {
						st.Probe("two_fault_set_too_large")
						return nil
					}
				}
			}
		}
		acc2[key] = a
		return a
	}
	check2 := func(k1 int, a1 int64, k2 int, a2 int64) *core.Violation {
		a := getAcc2(k1, k2)
		if a == nil {
			return nil
		}
		kind2, at2 = k2, a2
		r := execVM(proto, ov, k1, a1, maxSteps, k2 == hostapi.VCancel)
		kind2, at2 = 0, 0
		st.Evals++
		st.Steps += r.h.Steps
		if !r.h.Fired2 {
			return nil
		}
		st.D(r.hash)
		fired++
		name := hostapi.VKindNames[k1] + "+" + hostapi.VKindNames[k2]
		st.Fault("two:" + name)
		where := fmt.Sprintf("two faults: %s=%d, then %s=%d (of S=%d steps, H=%d host calls)", hostapi.VKindNames[k1], a1, hostapi.VKindNames[k2], a2, S, H)
		mk := func(class, format string, args ...interface{}) *core.Violation {
			v := core.Violationf(class, "%s: %s\n%s", where, fmt.Sprintf(format, args...), desc())
			v.Aux = []int64{int64(k1), a1, int64(k2), a2}
			return v
		}
		if r.out.Escaped != "" {
			return mk("escape", "a Go panic left the top-level PCall: %s", r.out.Escaped)
		}
		if r.h.Runaway {
			st.Probe("long_fault_path_discarded")
			return nil
		}
		if len(r.viol) > 0 {
			return mk(violClass(r.viol[0]), "%s", r.viol[0])
		}
		if _, ok := a.set[r.hash]; !ok {
			return mk("two-fault-trace-not-acceptable", "the trace after the two faults is none of the %d traces the reference model produces with these two aborts at any pair of micro-steps (%d model runs)\nimplementation trace:\n%sfault-free trace:\n%s",
				len(a.set), a.n, fmtTrace(r.trace, r.out.TopError), fmtTrace(free.Trace, free.TopError))
		}
		if k2 == hostapi.VCancel {
			if v := e.postCancel(r.h, where, desc); v != nil {
				v.Aux = []int64{int64(k1), a1, int64(k2), a2}
				return v
			}
		}
		return nil
	}
	if len(cfg.Aux) >= 4 {
		k1, k2 := int(cfg.Aux[0]), int(cfg.Aux[2])
		if k1 <= 0 || k1 >= hostapi.VKinds || k2 <= 0 || k2 >= hostapi.VKinds || cfg.Aux[1] < 1 || cfg.Aux[3] < 1 {
			return nil
		}
		st.Event("two faults %s at %d, %s at %d", hostapi.VKindNames[k1], cfg.Aux[1], hostapi.VKindNames[k2], cfg.Aux[3])
		return check2(k1, cfg.Aux[1], k2, cfg.Aux[3])
	}
	twoFaults := func() *core.Violation {
		// one program in three (quick tier) or in two: the phase costs about as much as the whole single-fault sweep
		if every := uint64(3); (progHash>>24)%every != 0 && (!cfg.Thorough || (progHash>>24)%2 != 0) {
			return nil
		}
		pk := pairKinds[progHash>>8%uint64(len(pairKinds))]
		if getAcc2(pk[0], pk[1]) == nil {
			return nil
		}
		st.Probe("two_fault_sweep_" + hostapi.VKindNames[pk[0]] + "+" + hostapi.VKindNames[pk[1]])
		lim1 := S
		if hostapi.IsHostKind(pk[0]) {
			lim1 = H
		}
		budget := int64(1200)
		if cfg.Thorough {
			budget = 5000
		}
		// an even sample of first points; for each, an even sample of second points behind it
		n1 := lim1
		if n1 > 60 {
			n1 = 60
		}
		if n1 == 0 {
			return nil
		}
		per := budget / n1
		if per < 4 {
			per = 4
		}
		for i := int64(0); i < n1; i++ {
			a1 := 1 + i*lim1/n1
			kind2, at2 = 0, 0
			r1 := execVM(proto, ov, pk[0], a1, maxSteps, false)
			st.Evals++
			st.Steps += r1.h.Steps
			if !r1.h.Fired || r1.h.Runaway {
				continue
			}
			lim2, from := r1.h.Steps, r1.h.FiredStep+1
			if hostapi.IsHostKind(pk[1]) {
				lim2, from = r1.h.HostCalls, 1
				if hostapi.IsHostKind(pk[0]) {
					from = a1 + 1
				}
			}
			span := lim2 - from + 1
			if span <= 0 {
				continue
			}
			n2 := span
			if n2 > per {
				n2 = per
			}
			off := int64((progHash >> 16) % uint64(span/n2+1))
			for j := int64(0); j < n2; j++ {
				a2 := from + (j*span/n2+off)%span
				if v := check2(pk[0], a1, pk[1], a2); v != nil {
					return v
				}
			}
		}
		return nil
	}

	if len(cfg.Aux) >= 2 {
		// replay / shrink of a single fault point
		kind := int(cfg.Aux[0])
		at := cfg.Aux[1]
		lim := S
		if hostapi.IsHostKind(kind) {
			lim = H
		}
		if lim == 0 || kind <= 0 || kind >= hostapi.VKinds {
			return nil
		}
		at = (at-1)%lim + 1
		if at < 1 {
			at = 1
		}
		st.Event("single fault %s at %d", hostapi.VKindNames[kind], at)
		return check(kind, at)
	}
	single := func(v *core.Violation, kind int, at int64, _ int) *core.Violation {
		v.Aux = []int64{int64(kind), at}
		return v
	}
	posBefore := 0

	// raise@k at every instruction boundary (stride above 1500)
	stride := int64(1)
	capPts := int64(500)
	if cfg.Thorough {
		capPts = 1500
	}
	if S > capPts {
		stride = S/capPts + 1
	}
	for k := int64(1) + int64(progHash%uint64(stride)); k <= S; k += stride {
		if v := check(hostapi.VRaise, k); v != nil {
			return single(v, hostapi.VRaise, k, posBefore)
		}
	}
	// host-originated kinds at every host call: all kinds when H is small, a rotating pair otherwise
	hostKinds := []int{hostapi.VGoPanicString, hostapi.VGoPanicError, hostapi.VGoPanicRuntime, hostapi.VRaiseError, hostapi.VErrorTable, hostapi.VErrorNumber, hostapi.VErrorFalse, hostapi.VErrorNil}
	for hc := int64(1); hc <= H; hc++ {
		ks := hostKinds
		if H > 40 {
			i := int(hc) % len(hostKinds)
			ks = []int{hostKinds[i], hostKinds[(i+3)%len(hostKinds)]}
		}
		for _, k := range ks {
			if v := check(k, hc); v != nil {
				return single(v, k, hc, posBefore)
			}
		}
	}
	// sticky cancellation at a sample of instruction boundaries
	nc := int64(12)
	if cfg.Thorough {
		nc = 40
	}
	cs := S/nc + 1
	for k := int64(1); k <= S; k += cs {
		if v := check(hostapi.VCancel, k); v != nil {
			return single(v, hostapi.VCancel, k, posBefore)
		}
	}
	if v := twoFaults(); v != nil {
		return v
	}
	st.DistinctW(progHash, fired)
	if st.WantSample() {
		st.Sample(map[string]interface{}{"program": src, "options": ov.name, "steps": S, "host_calls": H, "fault_points_fired": fired, "fault_free_trace": firstN(free.Trace, 12)})
	}
	return nil
}

func firstN(s []string, n int) []string {
	if len(s) > n {
		return s[:n]
	}
	return s
}

func violClass(s string) string {
	if i := strings.Index(s, ":"); i > 0 {
		return s[:i]
	}
	return "structural"
}

// postError runs the probe chunk on a state whose first chunk ended with an error.
func (e *Engine) postError(h *hostapi.Host, where string, desc func() string) *core.Violation {
	if postProto == nil {
		p, err := hostapi.Compile(postProbe)
		if err != nil {
			panic(err)
		}
		postProto = p
	}
	n0 := len(h.Trace)
	h.Kind = hostapi.VNone
	out := h.RunProto(postProto)
	got := strings.Join(h.Trace[n0:], "|")
	want := "E:'post',2|E:'post2',false,'PX'|E:'post3',2,10"
	if out.Escaped != "" || out.TopError != "" || got != want {
		return core.Violationf("state-unusable-after-error", "%s: after the failed call returned, a second chunk run on the same state gave trace %q error %q escaped %q, want %q\n%s",
			where, got, out.TopError, out.Escaped, want, desc())
	}
	return nil
}

func (e *Engine) postCancel(h *hostapi.Host, where string, desc func() string) *core.Violation {
	if postProto == nil {
		p, err := hostapi.Compile(postProbe)
		if err != nil {
			panic(err)
		}
		postProto = p
	}
	h.Ctx = hostapi.NewSimContext()
	h.L.SetContext(h.Ctx)
	n0 := len(h.Trace)
	h.Kind = hostapi.VNone
	out := h.RunProto(postProto)
	got := strings.Join(h.Trace[n0:], "|")
	want := "E:'post',2|E:'post2',false,'PX'|E:'post3',2,10"
	if out.Escaped != "" || out.TopError != "" || got != want || len(h.Violations) > 0 {
		return core.Violationf("state-unusable-after-cancel", "%s: after the cancelled call returned, a fresh context was attached and a second chunk run on the same state; got trace %q error %q escaped %q violations %v, want %q\n%s",
			where, got, out.TopError, out.Escaped, h.Violations, want, desc())
	}
	return nil
}

// Debug regenerates the program of a tape and prints source and both fault-free traces.
func Debug(profile string, draws []uint32) {
	t := core.ReplayTape(draws)
	prof := ir.ProfileFor(profile)
	prog := ir.Generate(t, prof)
	lay := ir.DrawLayout(t)
	ov := drawOptions(t)
	src := ir.Render(prog, lay).Source
	for i, l := range strings.Split(src, "\n") {
		fmt.Printf("%4d %s\n", i+1, l)
	}
	proto, err := hostapi.CompileFromFile(src) // through LoadFile behind a '#' line when the text has a header line
	if err != nil {
		fmt.Println("compile error:", err)
		return
	}
	r0 := execVM(proto, ov, hostapi.VNone, 0, 60000, false)
	free := model.Run(prog, model.Options{MaxSteps: 400000})
	n := len(r0.trace)
	if len(free.Trace) > n {
		n = len(free.Trace)
	}
	for i := 0; i < n; i++ {
		a, b := "", ""
		if i < len(r0.trace) {
			a = r0.trace[i]
		}
		if i < len(free.Trace) {
			b = free.Trace[i]
		}
		mark := " "
		if a != b {
			mark = "*"
		}
		fmt.Printf("%s %-50s | %s\n", mark, a, b)
	}
	fmt.Printf("top: vm=%q model=%q  steps=%d hostcalls=%d/%d\n", r0.out.TopError, free.TopError, r0.h.Steps, r0.h.HostCalls, free.HostSteps)
}

// DebugFault replays a single-fault tape and prints the implementation trace
// next to the closest acceptable model trace.
func DebugFault(profile string, draws []uint32, aux []int64) {
	t := core.ReplayTape(draws)
	prof := ir.ProfileFor(profile)
	prog := ir.Generate(t, prof)
	setReattachOK(prog)
	lay := ir.DrawLayout(t)
	ov := drawOptions(t)
	src := ir.Render(prog, lay).Source
	curSrc = src
	proto, err := hostapi.CompileFromFile(src) // through LoadFile behind a '#' line when the text has a header line
	if err != nil {
		fmt.Println("compile error:", err)
		return
	}
	r0 := execVM(proto, ov, hostapi.VNone, 0, 60000, false)
	free := model.Run(prog, model.Options{MaxSteps: 400000})
	S, H := r0.h.Steps, r0.h.HostCalls
	if len(aux) < 2 {
		fmt.Println("not a single-fault replay")
		return
	}
	kind := int(aux[0])
	at := aux[1]
	lim := S
	if hostapi.IsHostKind(kind) {
		lim = H
	}
	at = (at-1)%lim + 1
	r := execVM(proto, ov, kind, at, S*4+10000, kind == hostapi.VCancel)
	fmt.Printf("fault %s at %d fired=%v line=%d\n", hostapi.VKindNames[kind], at, r.h.Fired, r.h.FiredLine)
	mk := hostapi.ModelKind(kind)
	mlim := free.Steps
	if model.IsHostKind(mk) {
		mlim = free.HostSteps
	}
	best, bestM := -1, int64(0)
	var bestR *model.Result
	for m := int64(1); m <= mlim; m++ {
		mr := model.Run(prog, model.Options{FaultKind: mk, FaultAt: m, MaxSteps: 400000})
		c := 0
		for c < len(mr.Trace) && c < len(r.trace) && mr.Trace[c] == r.trace[c] {
			c++
		}
		if c > best || (c == best && len(mr.Trace) == len(r.trace)) {
			best, bestM, bestR = c, m, mr
		}
	}
	fmt.Printf("closest model abort: micro-step %d (ctx %s), common prefix %d\n", bestM, bestR.FiredCtx, best)
	n := len(r.trace)
	if len(bestR.Trace) > n {
		n = len(bestR.Trace)
	}
	for i := 0; i < n; i++ {
		a, b := "", ""
		if i < len(r.trace) {
			a = r.trace[i]
		}
		if i < len(bestR.Trace) {
			b = bestR.Trace[i]
		}
		mark := " "
		if a != b {
			mark = "*"
		}
		fmt.Printf("%s %-50s | %s\n", mark, a, b)
	}
	fmt.Printf("top: vm=%q model=%q viol=%v\n", r.out.TopError, bestR.TopError, r.viol)
}

// Reproduce runs the canonical reproducer of an open known finding (core.Reproducer).
func (e *Engine) Reproduce(key string, cfg *core.Config) (known bool, reproduced bool, detail string) {
	if key != "xpcall_handler_at_full_call_stack" {
		return false, false, ""
	}
	// the error is a call-stack overflow: the handler must run once, before unwinding, and its result is what the
	// caller receives - like for every other error
	L := lua.NewState(lua.Options{CallStackSize: 64, RegistrySize: 4096})
	defer L.Close()
	ran := 0
	L.SetGlobal("note", L.NewFunction(func(*lua.LState) int { ran++; return 0 }))
	err := L.DoString(`local function rec(n) return rec(n + 1) + 1 end
local ok, r = xpcall(function() return rec(1) end, function(m) note() return "H" end)
RES = tostring(ok) .. ":" .. tostring(r)`)
	if err != nil {
		return true, true, "the reproducer failed: " + err.Error()
	}
	res := L.GetGlobal("RES").String()
	if i := strings.Index(res, "\n"); i >= 0 {
		res = res[:i]
	}
	return true, ran != 1 || res != "false:H", fmt.Sprintf("xpcall over runaway recursion under CallStackSize 64: the handler ran %d time(s), xpcall returned %s; expected 1 and false:H", ran, res)
}
