// Package multistate is the C13 engine (and the blocked-channel-operation part
// of C11): N real goroutines, each with its own LState(s), exactly one runnable
// at a time; a scheduler driven by the choice tape decides every switch (step
// budgets through the per-instruction hook) and every channel match (channel
// hooks). Parking is invisible to the race detector (see park.go).
package multistate

import (
	"fmt"
	"runtime"
	"runtime/debug"
	"sort"
	"strings"
	"unsafe"

	lua "github.com/yuin/gopher-lua"

	"luasim/core"
	"luasim/hostapi"
	"luasim/ir"
)

type Engine struct{ prop string }

func New(prop string) func() core.Engine {
	return func() core.Engine { return &Engine{prop: prop} }
}

func (e *Engine) Name() string         { return "multistate" }
func (e *Engine) Properties() []string { return []string{"C13", "C11"} }
func (e *Engine) Level() string        { return "exploration" }
func (e *Engine) Rule() string {
	return "one run = 2-6 real goroutines each running Lua on its own LState(s): compute tasks (generated SimLua programs instantiated from prototypes compiled once and shared, plus private copies), lifecycle tasks (NewState/compile/run/Close loops), producers, consumers (receive, polling select with a default case, select fan-in), a closer, request/response pairs, payload-refusal probes; deadlock-free channel topologies with capacities 0-3 and 1-4 values per producer (one run in eight: capacities 7-64 and 20-69 values per producer); one task in three has an (undone) context attached; states are closed while other tasks run. Every task parks at every yield point (instruction budget 1-2000 from the tape, before and after every channel operation); the scheduler keeps a model of every channel, computes the enabled tasks and draws the next release from the tape; rendezvous partners are released as a pair. Oracles: no race-detector report (in the -race half of the workers), every compute task's trace equals its solo trace, shared prototypes are bit-identical afterwards, every received value is exactly the one the channel model delivers (each value once, per-sender order), closed/drained channels report closure, select completes only ready cases, refused payloads raise, no deadlock. distinct_nontrivial = distinct schedules (hash of the sequence of (task, budget, matched partner)) with at least two tasks"
}
func (e *Engine) RealComponents() []string {
	return []string{"LState/VM/compiler/standard libraries in several goroutines", "shared *FunctionProto", "package-level state (segment pool, jump table, ...)", "channellib.go over real Go channels and reflect.Select", "Go runtime channels"}
}
func (e *Engine) StubComponents() []string {
	return []string{"the goroutine scheduler's choice of who runs (futex mailboxes invisible to the race detector)", "context.Context (SimContext) for the blocked-operation cancellation cases"}
}
func (e *Engine) Assumptions() []string {
	return []string{"sync.Pool reuse and Go's choice among several buffer-ready select cases are not controlled (counted as select_multi_ready, outcome must be one of the ready cases)",
		"the race oracle relies on the race detector's bounded shadow history; amd64 only (raw futex, TSO)"}
}

// ---- channel model ----

type mchan struct {
	id     int
	ch     chan lua.LValue
	cap    int
	buf    []string // values in the buffer (rendered), FIFO
	closed bool
}

type taskKind int

const (
	kCompute taskKind = iota
	kLifecycle
	kProducer
	kConsumer
	kSelectConsumer
	kCloser
	kRequester
	kResponder
	kRefusal
	kBlocked // C11 workload C: blocks forever until its context is fired
)

type task struct {
	id     int
	kind   taskKind
	name   string
	src    string
	proto  *lua.FunctionProto
	mb     mailbox
	joined chan struct{} // closed by the task goroutine at its very end: the final join (a real happens-before edge)
	host   *hostapi.Host
	// task-private (touched only by the task goroutine until the final join)
	budget    int64
	trace     []string
	chanLog   []string // outcomes of channel operations as seen by the task
	err       string
	top       string
	escaped   string
	sendSeq   int
	sendVals  []string // values sent, in order (by construction)
	ctx       *hostapi.SimContext
	soloTrace []string
	// scheduler-side
	done    bool
	pend    pendingOp
	expect  []string // what the channel model says this task received / observed, in order
	fired   bool
	opts    lua.Options
	faultAt int64 // compute tasks: a one-shot error raised at this instruction (0: none), in the solo run as well
}

type sched struct {
	tasks  []*task
	chans  map[uintptr]*mchan
	st     *core.Stats
	events int
	hash   core.Hash
}

func chanKey(ch chan lua.LValue) uintptr { return uintptr(*(*unsafe.Pointer)(unsafe.Pointer(&ch))) }

func renderPayload(v lua.LValue) string {
	switch x := v.(type) {
	case lua.LString:
		return "s:" + string(x)
	case lua.LNumber:
		return fmt.Sprintf("n:%v", float64(x))
	case lua.LBool:
		return fmt.Sprintf("b:%v", bool(x))
	case *lua.LNilType:
		return "nil"
	case *lua.LTable:
		return fmt.Sprintf("t:%v", x.RawGetString("tag"))
	}
	return v.Type().String()
}

// ---- task goroutine ----

func (tk *task) run(chGlobals map[string]lua.LValue, shared map[string]*lua.FunctionProto) {
	defer func() {
		if r := recover(); r != nil {
			tk.escaped = fmt.Sprintf("%v\n%s", r, trimS(string(debug.Stack()), 2500))
		}
		tk.mb.finish()
		close(tk.joined)
	}()
	tk.budget = tk.mb.park(pendingOp{kind: parkStart})
	switch tk.kind {
	case kLifecycle:
		// create, compile, run, close: several states in a row
		for i := 0; i < 3; i++ {
			h := tk.newHost(nil, nil)
			if fn, err := h.L.LoadString(tk.src); err != nil {
				tk.err = err.Error()
			} else {
				h.L.Push(fn)
				if err := h.L.PCall(0, 0, nil); err != nil {
					tk.err = err.Error()
				}
			}
			tk.trace = append(tk.trace, h.Trace...)
			tk.trace = append(tk.trace, fmt.Sprintf("--- state %d closed", i))
			h.L.Close()
			// a host that closes a state twice (an error path plus a deferred Close) gets a panic from the second
			// call or nothing at all; whichever it is, it is that host's business and no other state's
			func() {
				defer func() { recover() }()
				h.L.Close()
			}()
			// a sandbox: only the base and string libraries are opened (no package library), run, close
			tk.budget = tk.mb.park(pendingOp{kind: parkStep})
			S := lua.NewState(lua.Options{SkipOpenLibs: true})
			for _, pair := range []struct {
				n string
				f lua.LGFunction
			}{{lua.BaseLibName, lua.OpenBase}, {lua.StringLibName, lua.OpenString}} {
				S.Push(S.NewFunction(pair.f))
				S.Push(lua.LString(pair.n))
				S.Call(1, 0)
			}
			if err := S.DoString("assert(type(string.rep) == \"function\" and package == nil)"); err != nil {
				tk.err = err.Error()
			}
			S.Close()
			// a full default state (all libraries opened through the package-level tables), compile, run, close
			tk.budget = tk.mb.park(pendingOp{kind: parkStep})
			F := lua.NewState()
			var got []string
			F.SetGlobal("note", F.NewFunction(func(L *lua.LState) int {
				got = append(got, L.ToString(1))
				return 0
			}))
			F.SetGlobal("ID", lua.LNumber(tk.id*10+i))
			// what the seeded sequence is when nothing else runs in between (no scheduler yield point inside)
			if err := F.DoString("math.randomseed(ID) RND1, RND2 = math.random(1000000), math.random(1000000)"); err != nil {
				tk.err = err.Error()
			}
			F.SetGlobal("pause", F.NewFunction(func(L *lua.LState) int {
				tk.budget = tk.mb.park(pendingOp{kind: parkStep})
				return 0
			}))
			F.PreloadModule("lifemod", func(L *lua.LState) int {
				L.Push(L.SetFuncs(L.NewTable(), map[string]lua.LGFunction{"f": func(L *lua.LState) int { L.Push(lua.LNumber(7)); return 1 }}))
				return 1
			})
			if err := F.DoString(fullLifeSrc); err != nil {
				tk.err = err.Error()
			}
			tk.trace = append(tk.trace, "full:"+strings.Join(got, ","))
			F.Close()
		}
	default:
		h := tk.newHost(chGlobals, shared)
		tk.host = h
		var out hostapi.Outcome
		if tk.proto != nil {
			out = h.RunProto(tk.proto)
		} else {
			p, err := hostapi.Compile(tk.src)
			if err != nil {
				tk.err = "compile: " + err.Error()
				return
			}
			out = h.RunProto(p)
		}
		tk.trace = h.Trace
		tk.err = out.RawError
		tk.top = out.TopError
		if out.Escaped != "" {
			tk.escaped = out.Escaped
		}
		h.L.Close() // states are closed while other tasks are still running
	}
}

func (tk *task) newHost(chGlobals map[string]lua.LValue, shared map[string]*lua.FunctionProto) *hostapi.Host {
	ho := hostapi.Options{LuaOptions: tk.opts, MaxSteps: 400000}
	if tk.faultAt > 0 {
		ho.Kind, ho.At = hostapi.VRaise, tk.faultAt
	}
	h := hostapi.NewHost(ho)
	L := h.L
	if tk.ctx != nil {
		h.Ctx = tk.ctx
		L.SetContext(tk.ctx)
	}
	for _, f := range []lua.LGFunction{lua.OpenChannel, lua.OpenMath} {
		L.Push(L.NewFunction(f))
		L.Call(0, 0)
	}
	for k, v := range chGlobals {
		L.SetGlobal(k, v)
	}
	if tk.ctx != nil && tk.kind != kBlocked && tk.id%2 == 0 {
		L.SetGlobal("REATTACH", lua.LTrue)
	}
	if tk.kind == kRefusal {
		L.SetGlobal("UD", L.NewUserData())
	}
	for k, p := range shared {
		L.SetGlobal(k, L.NewFunctionFromProto(p))
	}
	h.ExtraStep = func(L *lua.LState) {
		if tk.mb.aborted() {
			panic("multistate: run aborted by the scheduler (drain)")
		}
		tk.budget--
		if tk.budget <= 0 {
			tk.budget = tk.mb.park(pendingOp{kind: parkStep})
		}
	}
	lua.VerifSetChanHooks(L, func(L *lua.LState, op int, cases []lua.VerifChanCase, hasDefault bool) {
		p := pendingOp{kind: parkChanPre, op: op, hasDef: hasDefault}
		for i, c := range cases {
			if i >= 4 {
				break
			}
			if c.Ch != nil {
				p.chans[i] = chanKey(c.Ch)
			}
			p.send[i] = c.Send
			p.ncases++
		}
		tk.budget = tk.mb.park(p)
	}, func(L *lua.LState, op int, pos int, ok bool) {
		tk.chanLog = append(tk.chanLog, fmt.Sprintf("op%d:pos%d:ok%v", op, pos, ok))
		tk.budget = tk.mb.park(pendingOp{kind: parkChanPost, op: op, pos: pos, ok: ok})
	})
	return h
}

func trimS(s string, n int) string {
	if len(s) > n {
		return s[:n] + "..."
	}
	return s
}

// ---- scenario generation ----

const producerSrc = `local C, D, me, k = C, D, ME, K
for i = 1, k do
  local v = me .. "." .. i
  if PAYLOAD == "table" then v = {tag = v, n = 4, 1, 2}
  elseif PAYLOAD == "sharedtable" then
    -- one table, sent again and again: several states hold it at the same time and only read it
    SH = SH or {tag = me .. ".sh", n = 13, 1, 2, k1 = 1, k2 = 2, k3 = 3, k4 = 4, k5 = 5, k6 = 6, k7 = 7, k8 = 8, k9 = 9}
    v = SH
  elseif PAYLOAD == "number" then v = TID * 1000 + i end
  if VIASELECT then
    local idx, rv, ok = channel.select({"<-|", C, v, function(sent) emit("handler", type(sent) == type(v)) end})
    emit("select-sent", idx)
  else
    C:send(v)
  end
  emit("sent", i)
  if i == 1 and REATTACH then reattach() end -- the host gives the state a new context; the old one ends
end
D:send(me)
emit("producer done")
`

const consumerSrc = `local C = C
local n = 0
while true do
  local ok, v = C:receive()
  if not ok then emit("closed", v) break end
  n = n + 1
  if n == 1 and REATTACH then reattach() end -- the host gives the state a new context; the old one ends
  if type(v) == "table" then
    local c = 0 for k2, x in pairs(v) do c = c + 1 end
    if c ~= v.n then emit("handler-mismatch", c, v.n) end
    emit("got", v.tag, #v)
  else emit("got", v) end
end
emit("consumer done", n)
`

// a consumer that polls with a select that has a default case before it falls back to a blocking receive
const pollConsumerSrc = `local C = C
local n, polls = 0, 0
while true do
  local idx, v, ok
  if polls < POLLS then
    polls = polls + 1
    if DEFFIRST then
      idx, v, ok = channel.select({"default"}, {"|<-", C})
      if idx == 1 then idx = nil else idx = 1 end
    else
      idx, v, ok = channel.select({"|<-", C}, {"default"})
      if idx == 2 then idx = nil end
    end
  else
    ok, v = C:receive()
    idx = 1
  end
  if idx then
    if not ok then emit("closed", v) break end
    n = n + 1
    if type(v) == "table" then
    local c = 0 for k2, x in pairs(v) do c = c + 1 end
    if c ~= v.n then emit("handler-mismatch", c, v.n) end
    emit("got", v.tag, #v)
  else emit("got", v) end
  end
end
emit("consumer done", n)
`

const selectConsumerSrc = `local C, C2 = C, C2
local open1, open2 = true, true
local n = 0
while open1 or open2 do
  local cases = {}
  local which = {}
  local hv, hok, hcalls = nil, nil, 0
  local function h(ok, v) hcalls = hcalls + 1; hok = ok; hv = v end
  if open1 then cases[#cases + 1] = {"|<-", C, HANDLERS and h or nil}; which[#cases] = 1 end
  if open2 then cases[#cases + 1] = {"|<-", C2, HANDLERS and h or nil}; which[#cases] = 2 end
  local idx, v, ok = channel.select(unpack(cases))
  if HANDLERS and (hcalls ~= 1 or hok ~= ok or (ok and hv ~= v)) then emit("handler-mismatch", hcalls, hok, ok) end
  local w = which[idx]
  if not ok then
    if w == 1 then open1 = false else open2 = false end
    emit("sel-closed", w)
  else
    n = n + 1
    if type(v) == "table" then
      local c = 0 for k2, x in pairs(v) do c = c + 1 end
      if c ~= v.n then emit("handler-mismatch", c, v.n) end
      emit("sel-got", w, v.tag)
    else emit("sel-got", w, v) end
  end
end
emit("select consumer done", n)
`

const closerSrc = `local C, C2, D, P = C, C2, D, NPROD
for i = 1, P do
  local ok, who = D:receive()
  emit("token", ok)
end
C:close()
if C2 then C2:close() end
emit("closed all")
`

const requesterSrc = `local RQ, RS, k = RQ, RS, K
for i = 1, k do
  RQ:send(i)
  local ok, v = RS:receive()
  emit("reply", ok, v)
end
RQ:close()
emit("requester done")
`

const responderSrc = `local RQ, RS = RQ, RS
while true do
  local ok, v = RQ:receive()
  if not ok then break end
  RS:send(v * 2)
end
emit("responder done")
`

const refusalSrc = `local X = X
local function try(what, v)
  local ok, e = pcall(X.send, X, v)
  emit("send." .. what, ok)
  local ok2, e2 = pcall(channel.select, {"<-|", X, v})
  emit("select-send." .. what, ok2)
end
try("function", function() end)
try("thread", coroutine.create(function() end))
try("metatable-table", setmetatable({}, {__index = function() return 1 end}))
try("userdata", UD)
local ok, e = pcall(X.send, X, {1, 2, 3})
emit("send.plain-table", ok)
local ok, v = X:receive()
emit("received", ok, type(v))
emit("refusal done")
`

const blockedRecvSrc = `local B, W = B, W
if REATTACH then W:send(7); local ok, v = W:receive(); reattach() end
emit("before")
local ok, v = B:receive()
emit("after receive", ok, v)
while true do end
`
const blockedSelectSrc = `local B, W = B, W
if REATTACH then W:send(7); local ok, v = W:receive(); reattach() end
emit("before")
local i, v, ok = channel.select({"|<-", B})
emit("after select", i, v, ok)
while true do end
`
const blockedSendSrc = `local B, W = B, W
if REATTACH then W:send(7); local ok, v = W:receive(); reattach() end
for i = 1, CAP do B:send(i) end
emit("before")
B:send(0)
emit("after send")
while true do end
`

const fullLifeSrc = `local m = require("lifemod")
note(tostring(m.f()))
note(string.format("%5.2f|%d|%s|%q", 3.14159, 42, "x", "a b"))
note((string.gsub("hello world", "(%w+)", "<%1>")))
note(tostring(string.find("abc123", "%d+")))
local t = {5, 2, 8, 1}
table.sort(t)
note(table.concat(t, "-"))
note(tostring(math.max(1, 9, 3)) .. tostring(#os.date("%Y")))
note(tostring(select("#", pcall(error, {}))))
local ok, e = pcall(require, "nosuchmodule")
note(tostring(ok))
local f = loadstring("return 1 + 1")
note(tostring(f()))
-- the standard files belong to the process: a state cannot close them under the feet of the others
local okc, ec = io.stdin:close()
note("std:" .. tostring(okc) .. ":" .. tostring(ec) .. ":" .. io.type(io.stdin))
-- a seeded random sequence is this state's own computation
math.randomseed(ID)
pause()
local r1 = math.random(1000000)
pause()
local r2 = math.random(1000000)
note("rnd:" .. tostring(r1 == RND1 and r2 == RND2))
-- what a failed load leaves in package.loaded belongs to this state alone
package.preload.failing = function() error("nope") end
note(tostring(pcall(require, "failing")))
local s = package.loaded.failing
note(type(s))
if type(s) == "userdata" or type(s) == "table" then
  local okm = pcall(setmetatable, s, {__index = function(t, k) return ID end})
  pause()
  note(tostring(okm) .. ":" .. tostring(okm and s.x == ID))
  pause()
  pcall(setmetatable, s, nil)
end
`

const lifecycleSrc = `local t = {}
for i = 1, 20 do t[i] = i * i end
local s = 0
for _, v in ipairs(t) do s = s + v end
local co = coroutine.wrap(function(a) local b = coroutine.yield(a + 1) return b * 2 end)
emit("life", s, co(1), co(4), string.format("%d", 7), (string.gsub("abc", "%a", "x")))
local ok, e = pcall(error, "x", 0)
emit("life-err", ok, e)
local function deep(n, fail) if n <= 0 then if fail then error("deep") end return 0 end return 1 + deep(n - 1, fail) end
emit("deep", deep(30, false), (pcall(deep, 25, true)), deep(5, false), deep(28, false))
local function h(...) arg[#arg + 1] = "x"; arg.n = arg.n + 1; return #arg .. "." .. arg.n end
emit("vararg", select(2, pcall(h)), select(2, pcall(h)), h(1, 2), (h()))
`

func (e *Engine) Run(t *core.Tape, cfg *core.Config, st *core.Stats) *core.Violation {
	sc := &sched{chans: map[uintptr]*mchan{}, st: st, hash: core.NewHash()}
	multiBefore := st.Probes["select_multi_ready"]
	var desc []string
	addChan := func(capacity int) *mchan {
		ch := make(chan lua.LValue, capacity)
		m := &mchan{id: len(sc.chans), ch: ch, cap: capacity}
		sc.chans[chanKey(ch)] = m
		return m
	}
	mkOpts := func() lua.Options {
		o := hostapi.SmallOptions()
		switch t.Choose(4) {
		case 1:
			o.MinimizeStackMemory = true
		case 2:
			o.RegistrySize, o.RegistryGrowStep = 300, 7
		case 3:
			o.MinimizeStackMemory = true
			o.CallStackSize = 64
		}
		return o
	}
	cancelMode := e.prop == "C11"
	newTask := func(kind taskKind, name, src string) *task {
		tk := &task{id: len(sc.tasks), kind: kind, name: name, src: src, opts: mkOpts(), joined: make(chan struct{})}
		if !cancelMode && kind != kLifecycle && t.Choose(3) == 0 {
			// a context that is never done: channel operations take their context-aware paths, the interpreter its
			// context-aware loop; nothing observable may change
			tk.ctx = hostapi.NewSimContext()
			st.Probe("task_with_undone_context")
		}
		sc.tasks = append(sc.tasks, tk)
		return tk
	}
	globals := map[*task]map[string]lua.LValue{}

	// --- compute tasks over shared prototypes ---
	ncomp := t.Choose(3)
	if cancelMode {
		ncomp = t.Choose(2)
	}
	var sharedProto *lua.FunctionProto
	var sharedSrc string
	if ncomp > 0 {
		prof := ir.ProfileFor([]string{"closure", "containment", "coroutine"}[t.Choose(3)])
		prof.MaxStmts = 25
		prof.MaxEst = 600
		prof.Disabled = cfg.Disabled
		prog := ir.Generate(t, prof)
		sharedSrc = ir.Render(prog, ir.DrawLayout(t)).Source
		p, err := hostapi.Compile(sharedSrc)
		if err != nil {
			return core.Violationf("rejects-valid", "generated program does not compile: %v\n%s", err, sharedSrc)
		}
		sharedProto = p
	}
	for i := 0; i < ncomp; i++ {
		tk := newTask(kCompute, fmt.Sprintf("compute%d", i), sharedSrc)
		if t.Choose(3) != 0 {
			tk.proto = sharedProto // the same compiled prototype in several states
			st.Probe("shared_prototype_task")
		}
		globals[tk] = map[string]lua.LValue{}
		if t.Choose(2) == 0 {
			// one task in two runs into an injected error at a drawn instruction (alone and concurrently): the
			// error paths (unwinding, tracebacks) run next to the other tasks too
			tk.faultAt = 1 + int64(t.Choose(1500))
			st.Probe("compute_task_with_injected_error")
		}
		desc = append(desc, fmt.Sprintf("task %d %s (shared proto: %v, injected error at instruction %d)", tk.id, tk.name, tk.proto != nil, tk.faultAt))
	}
	if t.Choose(3) == 0 {
		tk := newTask(kLifecycle, "lifecycle", lifecycleSrc)
		globals[tk] = nil
		desc = append(desc, fmt.Sprintf("task %d lifecycle (NewState/compile/run/Close x3)", tk.id))
		if t.Choose(2) == 0 {
			tk := newTask(kLifecycle, "lifecycle-b", lifecycleSrc)
			globals[tk] = nil
			desc = append(desc, fmt.Sprintf("task %d lifecycle (a second one)", tk.id))
			st.Probe("two_lifecycle_tasks")
		}
	}
	// --- channel topology ---
	topo := t.Choose(3)
	if cancelMode {
		topo = 3
	}
	switch topo {
	case 0, 1: // producers -> C (-> consumers), done tokens -> closer
		np := 1 + t.Choose(3)
		nc := 1 + t.Choose(2)
		// one run in eight: many values through bigger buffers (counts and capacities beyond the small numbers)
		big := t.Choose(8) == 0
		ccap := t.Choose(4)
		if big {
			ccap = []int{7, 8, 16, 33, 64}[t.Choose(5)]
			st.Probe("many_values_big_buffer")
		}
		C := addChan(ccap)
		D := addChan(np)
		var C2 *mchan
		useSelect := topo == 1
		if useSelect {
			C2 = addChan(t.Choose(3))
		}
		payload := []string{"string", "number", "table", "sharedtable"}[t.Choose(4)]
		for i := 0; i < np; i++ {
			tk := newTask(kProducer, fmt.Sprintf("producer%d", i), producerSrc)
			target := C
			if useSelect && i%2 == 1 {
				target = C2
			}
			k := 1 + t.Choose(4)
			if big {
				k = 20 + t.Choose(50)
			}
			viaSelect := t.Choose(3) == 0
			if viaSelect {
				st.Probe("producer_sends_through_select")
			}
			globals[tk] = map[string]lua.LValue{"C": lua.LChannel(target.ch), "D": lua.LChannel(D.ch), "ME": lua.LString(tk.name), "K": lua.LNumber(k), "PAYLOAD": lua.LString(payload), "TID": lua.LNumber(tk.id), "VIASELECT": lua.LBool(viaSelect)}
			for j := 1; j <= k; j++ {
				switch payload {
				case "string":
					tk.sendVals = append(tk.sendVals, fmt.Sprintf("s:%s.%d", tk.name, j))
				case "number":
					tk.sendVals = append(tk.sendVals, fmt.Sprintf("n:%v", float64(tk.id*1000+j)))
				case "sharedtable":
					tk.sendVals = append(tk.sendVals, fmt.Sprintf("t:%s.sh", tk.name))
				default:
					tk.sendVals = append(tk.sendVals, fmt.Sprintf("t:%s.%d", tk.name, j))
				}
			}
			tk.sendVals = append(tk.sendVals, "s:"+tk.name) // the done token
			desc = append(desc, fmt.Sprintf("task %d %s: %d sends on chan%d (cap %d), then a token on chan%d", tk.id, tk.name, k, target.id, target.cap, D.id))
		}
		if useSelect {
			tk := newTask(kSelectConsumer, "selectconsumer", selectConsumerSrc)
			globals[tk] = map[string]lua.LValue{"C": lua.LChannel(C.ch), "C2": lua.LChannel(C2.ch), "HANDLERS": lua.LBool(t.Bool())}
			desc = append(desc, fmt.Sprintf("task %d select consumer over chan%d, chan%d", tk.id, C.id, C2.id))
		} else {
			for i := 0; i < nc; i++ {
				if t.Choose(3) == 0 {
					tk := newTask(kConsumer, fmt.Sprintf("pollconsumer%d", i), pollConsumerSrc)
					polls, first := 1+t.Choose(6), t.Bool()
					globals[tk] = map[string]lua.LValue{"C": lua.LChannel(C.ch), "POLLS": lua.LNumber(polls), "DEFFIRST": lua.LBool(first)}
					desc = append(desc, fmt.Sprintf("task %d %s on chan%d: %d polls with select+default (default first: %v), then blocking receives", tk.id, tk.name, C.id, polls, first))
					st.Probe("poll_consumer")
					continue
				}
				tk := newTask(kConsumer, fmt.Sprintf("consumer%d", i), consumerSrc)
				globals[tk] = map[string]lua.LValue{"C": lua.LChannel(C.ch)}
				desc = append(desc, fmt.Sprintf("task %d %s on chan%d", tk.id, tk.name, C.id))
			}
		}
		tk := newTask(kCloser, "closer", closerSrc)
		g := map[string]lua.LValue{"C": lua.LChannel(C.ch), "D": lua.LChannel(D.ch), "NPROD": lua.LNumber(np)}
		if C2 != nil {
			g["C2"] = lua.LChannel(C2.ch)
		}
		globals[tk] = g
		desc = append(desc, fmt.Sprintf("task %d closer: %d tokens from chan%d, then close", tk.id, np, D.id))
	case 2: // request/response on unbuffered channels + refusal probes
		RQ, RS := addChan(0), addChan(t.Choose(2))
		a := newTask(kRequester, "requester", requesterSrc)
		k := 1 + t.Choose(4)
		globals[a] = map[string]lua.LValue{"RQ": lua.LChannel(RQ.ch), "RS": lua.LChannel(RS.ch), "K": lua.LNumber(k)}
		for j := 1; j <= k; j++ {
			a.sendVals = append(a.sendVals, fmt.Sprintf("n:%v", float64(j)))
		}
		b := newTask(kResponder, "responder", responderSrc)
		globals[b] = map[string]lua.LValue{"RQ": lua.LChannel(RQ.ch), "RS": lua.LChannel(RS.ch)}
		for j := 1; j <= k; j++ {
			b.sendVals = append(b.sendVals, fmt.Sprintf("n:%v", float64(2*j)))
		}
		desc = append(desc, fmt.Sprintf("task %d requester / task %d responder: %d round trips over chan%d (cap 0) and chan%d (cap %d)", a.id, b.id, k, RQ.id, RS.id, RS.cap))
		X := addChan(2)
		r := newTask(kRefusal, "refusal", refusalSrc)
		globals[r] = map[string]lua.LValue{"X": lua.LChannel(X.ch)}
		r.sendVals = []string{"t:nil"}
		desc = append(desc, fmt.Sprintf("task %d refusal probes on chan%d", r.id, X.id))
	case 3: // C11 workload C: a task blocks in a channel operation nobody serves; its context is fired
		B := addChan(t.Choose(3)) // unbuffered, or buffered: a send blocks once the buffer is full, a receive while it is empty
		which := t.Choose(3)
		src := []string{blockedRecvSrc, blockedSelectSrc, blockedSendSrc}[which]
		tk := newTask(kBlocked, []string{"blocked-receive", "blocked-select", "blocked-send"}[which], src)
		tk.ctx = hostapi.NewSimContext()
		// one case in three: the task first performs channel operations under its first context, then its host
		// replaces the context (SetContext in mid-run); the cancellation arrives through the new context
		re := t.Choose(3) == 0
		W := addChan(1)
		globals[tk] = map[string]lua.LValue{"B": lua.LChannel(B.ch), "CAP": lua.LNumber(B.cap), "W": lua.LChannel(W.ch), "REATTACH": lua.LBool(re)}
		if re {
			tk.sendVals = append(tk.sendVals, "n:7")
			st.Probe("blocked_after_context_replaced")
		}
		for j := 1; j <= B.cap; j++ {
			tk.sendVals = append(tk.sendVals, fmt.Sprintf("n:%v", float64(j)))
		}
		st.Probe(fmt.Sprintf("blocked_on_capacity_%d", B.cap))
		desc = append(desc, fmt.Sprintf("task %d %s on chan%d (cap %d) with a context that the scheduler fires while it is parked in the operation", tk.id, tk.name, B.id, B.cap))
		st.Probe("blocked_" + tk.name)
	}
	if len(sc.tasks) < 2 {
		tk := newTask(kLifecycle, "lifecycle2", lifecycleSrc)
		globals[tk] = nil
		desc = append(desc, fmt.Sprintf("task %d lifecycle", tk.id))
	}
	// userdata for the refusal probe must belong to that task's state: created by the task itself
	// (a table with a metatable etc. are created in Lua); UD is a plain userdata made by the host.

	// the shared prototype as compiled, before anything has executed it (the solo runs included)
	protoHash := ""
	if sharedProto != nil {
		protoHash = deepHash(sharedProto)
	}
	// --- solo runs of the compute tasks (reference traces) ---
	for _, tk := range sc.tasks {
		if tk.kind != kCompute {
			continue
		}
		ho := hostapi.Options{LuaOptions: tk.opts, MaxSteps: 400000}
		if tk.faultAt > 0 {
			ho.Kind, ho.At = hostapi.VRaise, tk.faultAt
		}
		h := hostapi.NewHost(ho)
		for _, f := range []lua.LGFunction{lua.OpenChannel, lua.OpenMath} {
			h.L.Push(h.L.NewFunction(f))
			h.L.Call(0, 0)
		}
		p := tk.proto
		if p == nil {
			p, _ = hostapi.Compile(tk.src)
		}
		out := h.RunProto(p)
		if h.Runaway {
			st.Discarded++
			return nil
		}
		tk.soloTrace = append(h.Trace, "TOP:"+out.TopError)
		st.Steps += h.Steps
	}

	// --- start the goroutines; each parks at once ---
	for _, tk := range sc.tasks {
		g := globals[tk]
		if tk.kind == kRefusal {
			// the userdata is created inside the task's own state in run(); pass a marker
		}
		go tk.run(g, nil)
	}
	for _, tk := range sc.tasks {
		p, ok := tk.mb.waitParked(20000)
		if !ok {
			return core.Violationf("harness", "task %d did not reach its start point", tk.id)
		}
		tk.pend = p
	}

	fail := func(class, format string, args ...interface{}) *core.Violation {
		return core.Violationf(class, "%s\n--- tasks ---\n  %s\n--- schedule (last events) ---\n  %s", fmt.Sprintf(format, args...), strings.Join(desc, "\n  "), strings.Join(tailS(st.Events, 60), "\n  "))
	}
	v := sc.loop(t, fail, cancelMode)
	// make sure no goroutine is left running before we return (they would race with the next run)
	sc.drain()
	for _, tk := range sc.tasks {
		if tk.done {
			<-tk.joined // the final join
		}
	}
	if v != nil {
		return v
	}
	st.Evals++
	st.Steps += int64(sc.events)
	if n := runtime.NumGoroutine(); n > 3 {
		st.ProbeN("goroutines_left_alive", n-3)
	}

	// --- after the join: verify ---
	for _, tk := range sc.tasks {
		if tk.escaped != "" {
			return fail("escape", "task %d %s: a Go panic left the task: %s", tk.id, tk.name, tk.escaped)
		}
		switch tk.kind {
		case kCompute:
			got := append(append([]string(nil), tk.trace...), "TOP:"+tk.top)
			if strings.Join(got, "\n") != strings.Join(tk.soloTrace, "\n") {
				return fail("solo-equivalence", "task %d %s computed something else than it computes alone\nconcurrent:\n  %s\nsolo:\n  %s\nprogram:\n%s", tk.id, tk.name, strings.Join(tailS(got, 25), "\n  "), strings.Join(tailS(tk.soloTrace, 25), "\n  "), tk.src)
			}
		case kLifecycle:
			one := "E:'life',2870,2,8,'7','xxx'|E:'life-err',false,'x'|E:'deep',30,false,5,28|E:'vararg','1.1','1.1','3.3','1.1'|--- state %d closed|full:7, 3.14|42|x|\"a b\",<hello> <world>,4,1-2-5-8,94,2,false,2,std:nil:cannot close standard file:file,rnd:true,false,userdata,true:true"
			want := fmt.Sprintf(one, 0) + "|" + fmt.Sprintf(one, 1) + "|" + fmt.Sprintf(one, 2)
			if got := strings.Join(tk.trace, "|"); got != want || tk.err != "" {
				return fail("solo-equivalence", "lifecycle task %d: trace %q error %q, want %q", tk.id, got, tk.err, want)
			}
		case kBlocked:
			// checked in loop
		default:
			if tk.err != "" {
				return fail("task-error", "task %d %s ended with an error: %s\ntrace: %v", tk.id, tk.name, tk.err, tk.trace)
			}
			// what the task observed must be what the channel model delivered
			obs := observed(tk)
			if strings.Join(obs, "|") != strings.Join(tk.expect, "|") {
				return fail("channel-delivery", "task %d %s observed [%s], the channel model delivered [%s]", tk.id, tk.name, strings.Join(obs, " | "), strings.Join(tk.expect, " | "))
			}
			if tk.kind == kRefusal {
				want := "send.function:false|select-send.function:false|send.thread:false|select-send.thread:false|send.metatable-table:false|select-send.metatable-table:false|send.userdata:false|select-send.userdata:false|send.plain-table:true"
				var got []string
				for _, l := range tk.trace {
					if strings.HasPrefix(l, "E:'send.") || strings.HasPrefix(l, "E:'select-send.") {
						l = strings.TrimPrefix(l, "E:'")
						l = strings.Replace(l, "',", ":", 1)
						got = append(got, l)
					}
				}
				if strings.Join(got, "|") != want {
					return fail("payload-not-refused", "refusal probes: got %q, want %q", strings.Join(got, "|"), want)
				}
			}
		}
	}
	// conservation: every value sent was received exactly once or is still buffered
	for _, m := range sc.chans {
		if len(m.buf) != len(m.ch) {
			return fail("channel-model", "chan%d: the model holds %d buffered values, the real channel %d", m.id, len(m.buf), len(m.ch))
		}
	}
	if sharedProto != nil && deepHash(sharedProto) != protoHash {
		return fail("prototype-modified", "the shared compiled prototype was modified by executing it")
	}
	if st.Probes["select_multi_ready"] != multiBefore {
		st.Uncontrolled = true // Go's choice among several buffer-ready select cases is not controlled
	}
	st.D(uint64(sc.hash))
	for _, tk := range sc.tasks {
		st.D(core.HashStrings(tk.trace))
	}
	if len(sc.tasks) >= 2 {
		st.Distinct(uint64(sc.hash))
	}
	if st.WantSample() {
		st.Sample(map[string]interface{}{"tasks": desc, "schedule_events": sc.events, "schedule_tail": tailS(st.Events, 12)})
	}
	return nil
}

func observed(tk *task) []string {
	var out []string
	for _, l := range tk.trace {
		switch {
		case strings.HasPrefix(l, "E:'got',"):
			out = append(out, strings.TrimPrefix(l, "E:'got',"))
		case strings.HasPrefix(l, "E:'sel-got',"):
			out = append(out, strings.TrimPrefix(l, "E:'sel-got',"))
		case strings.HasPrefix(l, "E:'closed'"), strings.HasPrefix(l, "E:'sel-closed'"):
			out = append(out, "closed")
		case strings.HasPrefix(l, "E:'reply',"):
			out = append(out, strings.TrimPrefix(l, "E:'reply',"))
		case strings.HasPrefix(l, "E:'handler-mismatch'"), l == "E:'handler',false":
			out = append(out, "HANDLER-MISMATCH:"+l)
		case strings.HasPrefix(l, "E:'token',"):
			out = append(out, "token")
		case strings.HasPrefix(l, "E:'received',"):
			out = append(out, strings.TrimPrefix(l, "E:'received',"))
		}
	}
	return out
}

func tailS(s []string, n int) []string {
	if len(s) > n {
		return s[len(s)-n:]
	}
	return s
}

func deepHash(p *lua.FunctionProto) string {
	var sb strings.Builder
	var rec func(p *lua.FunctionProto)
	rec = func(p *lua.FunctionProto) {
		fmt.Fprintf(&sb, "P(%s,%d,%d,%d,%d,%d,%d|%v|", p.SourceName, p.LineDefined, p.LastLineDefined, p.NumUpvalues, p.NumParameters, p.IsVarArg, p.NumUsedRegisters, p.Code)
		for _, k := range p.Constants {
			fmt.Fprintf(&sb, "%T:%v,", k, k)
		}
		fmt.Fprintf(&sb, "|%v|%v|%v|%v|", p.DbgSourcePositions, p.DbgCalls, p.DbgUpvalues, lua.VerifStringConstants(p))
		for _, l := range p.DbgLocals {
			fmt.Fprintf(&sb, "%s:%d:%d,", l.Name, l.StartPc, l.EndPc)
		}
		for _, c := range p.FunctionPrototypes {
			rec(c)
		}
		sb.WriteByte(')')
	}
	rec(p)
	return sb.String()
}

var _ = sort.Strings

// ---- the scheduler ----

type choice struct {
	tk      *task
	partner *task // rendezvous partner (receiver side), nil for a solo release
	fire    bool  // fire the task's context first
}

// fmtFor renders a payload descriptor ("s:..", "n:..", "t:..") the way the observer's script emits it.
func fmtFor(obs *task, val string, which int) string {
	kind, text := val[:1], val[2:]
	var v string
	switch kind {
	case "s":
		v = "'" + text + "'"
	case "n":
		v = text
	case "t":
		v = "'" + text + "'"
	}
	switch obs.kind {
	case kConsumer:
		if kind == "t" {
			return v + ",2"
		}
		return v
	case kSelectConsumer:
		return fmt.Sprintf("%d,%s", which, v)
	case kCloser:
		return "token"
	case kRequester:
		return "true," + v
	case kRefusal:
		return "true,'table'"
	}
	return ""
}

func (sc *sched) chanOf(p pendingOp, i int) *mchan { return sc.chans[p.chans[i]] }

// recvReady: case i of a parked receive/select can complete from the buffer or because the channel is closed.
func (sc *sched) recvReady(p pendingOp, i int) bool {
	m := sc.chanOf(p, i)
	return m != nil && !p.send[i] && (len(m.buf) > 0 || m.closed)
}

// asSend: a select whose only case is a send (no default) is, for the channel model, a send.
func asSend(p pendingOp) pendingOp {
	if p.kind == parkChanPre && p.op == lua.VerifChanSelect && p.ncases == 1 && p.send[0] && !p.hasDef {
		p.op = lua.VerifChanSend
	}
	return p
}

func (sc *sched) enabled(cancelMode bool) []choice {
	var out []choice
	for _, tk := range sc.tasks {
		if tk.done {
			continue
		}
		p := asSend(tk.pend)
		switch p.kind {
		case parkStart, parkStep, parkChanPost:
			out = append(out, choice{tk: tk})
		case parkChanPre:
			before := len(out)
			switch p.op {
			case lua.VerifChanClose:
				out = append(out, choice{tk: tk})
			case lua.VerifChanSend:
				m := sc.chanOf(p, 0)
				if m == nil {
					continue
				}
				if m.closed || len(m.buf) < m.cap {
					out = append(out, choice{tk: tk})
					continue
				}
				// rendezvous partners: receivers parked on this channel (a select with default is never a partner)
				for _, r := range sc.tasks {
					if r == tk || r.done || r.pend.kind != parkChanPre || r.pend.hasDef {
						continue
					}
					if r.pend.op != lua.VerifChanRecv && r.pend.op != lua.VerifChanSelect {
						continue
					}
					for i := 0; i < r.pend.ncases; i++ {
						if !r.pend.send[i] && r.pend.chans[i] == p.chans[0] {
							// a select partner must have no buffer-ready case (Go would be free to take that one)
							ready := false
							for j := 0; j < r.pend.ncases; j++ {
								if sc.recvReady(r.pend, j) {
									ready = true
								}
							}
							if !ready {
								out = append(out, choice{tk: tk, partner: r})
							}
							break
						}
					}
				}
			case lua.VerifChanRecv, lua.VerifChanSelect:
				nready := 0
				for i := 0; i < p.ncases; i++ {
					if sc.recvReady(p, i) {
						nready++
					}
				}
				if nready > 0 || p.hasDef {
					out = append(out, choice{tk: tk})
				}
			}
			if tk.kind == kBlocked && !tk.fired && len(out) == before {
				// the operation cannot complete (nobody serves the channel): the context may fire now
				out = append(out, choice{tk: tk, fire: true})
			}
		}
	}
	return out
}

func (sc *sched) loop(t *core.Tape, fail func(string, string, ...interface{}) *core.Violation, cancelMode bool) *core.Violation {
	budgets := []int64{1, 2, 3, 7, 25, 100, 400, 2000}
	for iter := 0; iter < 5000; iter++ {
		for _, tk := range sc.tasks {
			if tk.kind == kRefusal && !tk.done && tk.pend.kind == parkChanPre && tk.pend.op == lua.VerifChanSelect {
				for i := 0; i < tk.pend.ncases; i++ {
					if tk.pend.send[i] {
						return fail("payload-not-refused", "task %d: a select send case whose payload must be refused (function, thread, table with a metatable, userdata) reached the channel operation", tk.id)
					}
				}
			}
		}
		en := sc.enabled(cancelMode)
		if len(en) == 0 {
			alldone := true
			var stuck []string
			for _, tk := range sc.tasks {
				if !tk.done {
					alldone = false
					stuck = append(stuck, fmt.Sprintf("task %d %s parked in channel op %d", tk.id, tk.name, tk.pend.op))
				}
			}
			if alldone {
				return nil
			}
			return fail("deadlock", "no task is enabled although the topology cannot deadlock under channel semantics: %s", strings.Join(stuck, "; "))
		}
		// a select with several buffer-ready cases is released only when nothing else is enabled
		pick := en[t.Choose(len(en))]
		budget := budgets[t.Choose(len(budgets))]
		sc.events++
		tk := pick.tk
		pid := -1
		if pick.partner != nil {
			pid = pick.partner.id
		}
		sc.hash = sc.hash.Int(tk.id).Int(int(budget)).Int(pid)
		if pick.fire {
			sc.st.Event("ev%d: fire the context of task %d %s while it is parked in its channel operation", sc.events, tk.id, tk.name)
			sc.st.Fault("cancel_while_blocked")
			tk.fired = true
			if tk.host != nil && tk.host.Ctx != nil {
				tk.host.Ctx.Fire() // the context that is attached now (the host may have replaced the first one)
			} else {
				tk.ctx.Fire()
			}
		}
		pre := asSend(tk.pend)
		if pick.partner != nil {
			// rendezvous: release the matched pair, wait for both
			r := pick.partner
			rpre := r.pend
			sc.st.Event("ev%d: rendezvous task %d %s (send) with task %d %s on chan%d", sc.events, tk.id, tk.name, r.id, r.name, sc.chanOf(pre, 0).id)
			sc.st.Probe("rendezvous")
			tk.mb.release(budget)
			r.mb.release(budget)
			p1, ok1 := tk.mb.waitParked(10000)
			p2, ok2 := r.mb.waitParked(10000)
			if !ok1 || !ok2 {
				return fail("blocked-although-enabled", "rendezvous between task %d and task %d did not complete", tk.id, r.id)
			}
			tk.pend, r.pend = p1, p2
			if p1.kind != parkChanPost || p2.kind != parkChanPost {
				return fail("channel-model", "rendezvous partners did not both complete their operation (states %d, %d)", p1.kind, p2.kind)
			}
			val := tk.nextSend()
			which := -1
			for i := 0; i < rpre.ncases; i++ {
				if rpre.chans[i] == pre.chans[0] {
					which = i
				}
			}
			if rpre.op == lua.VerifChanSelect && p2.pos != which {
				return fail("select-unready-case", "task %d select completed case %d, only case %d had a partner", r.id, p2.pos, which)
			}
			if !p2.ok {
				return fail("channel-delivery", "task %d received ok=false from a live sender", r.id)
			}
			if f := fmtFor(r, val, sc.whichIndex(r, pre.chans[0])); f != "" {
				r.expect = append(r.expect, f)
			}
			continue
		}
		switch pre.kind {
		case parkChanPre:
			sc.st.Event("ev%d: task %d %s performs channel op %d", sc.events, tk.id, tk.name, pre.op)
		default:
			sc.st.Event("ev%d: run task %d %s for %d instructions", sc.events, tk.id, tk.name, budget)
		}
		tk.mb.release(budget)
		p, ok := tk.mb.waitParked(8000)
		if !ok {
			if tk.kind == kBlocked && tk.fired {
				return fail("blocked-after-cancel", "task %d %s: the context is done but the blocking channel operation did not return (waited 8 s of real time)", tk.id, tk.name)
			}
			return fail("blocked-although-enabled", "task %d %s did not come back from an operation the channel model says cannot block (op %d)", tk.id, tk.name, pre.op)
		}
		tk.pend = p
		if p.kind == parkDone {
			tk.done = true
			<-tk.joined // join this task: a real happens-before edge, its private data may now be read
			if tk.kind == kBlocked {
				if v := sc.checkBlocked(tk, fail); v != nil {
					return v
				}
			}
			continue
		}
		if pre.kind == parkChanPre {
			if p.kind != parkChanPost {
				// the operation raised (e.g. refused payload): no effect on the channel
				if tk.kind != kRefusal {
					return fail("channel-model", "task %d %s: channel op %d did not complete normally", tk.id, tk.name, pre.op)
				}
				continue
			}
			if v := sc.applySolo(tk, pre, p, fail); v != nil {
				return v
			}
		}
	}
	return fail("harness", "schedule did not finish within 5000 events")
}

func (tk *task) nextSend() string {
	if tk.sendSeq < len(tk.sendVals) {
		v := tk.sendVals[tk.sendSeq]
		tk.sendSeq++
		return v
	}
	tk.sendSeq++
	return "s:?"
}

// whichIndex: the 1-based channel number the select consumer's script reports (C = 1, C2 = 2).
func (sc *sched) whichIndex(r *task, key uintptr) int {
	if r.kind != kSelectConsumer {
		return 0
	}
	if m := sc.chans[key]; m != nil {
		// C was created before C2 in that topology
		ids := []int{}
		for _, c := range sc.chans {
			ids = append(ids, c.id)
		}
		sort.Ints(ids)
		if m.id == ids[0] {
			return 1
		}
		return 2
	}
	return 0
}

// applySolo applies a completed non-rendezvous channel operation to the model and checks its outcome.
func (sc *sched) applySolo(tk *task, pre, post pendingOp, fail func(string, string, ...interface{}) *core.Violation) *core.Violation {
	switch pre.op {
	case lua.VerifChanClose:
		m := sc.chanOf(pre, 0)
		m.closed = true
	case lua.VerifChanSend:
		if tk.kind == kBlocked && tk.fired {
			return nil // the cancelled operation returned; checked when the task ends
		}
		m := sc.chanOf(pre, 0)
		if m.closed {
			return fail("channel-model", "task %d: send on a closed channel completed normally", tk.id)
		}
		m.buf = append(m.buf, tk.nextSend())
		if len(m.buf) > m.cap {
			return fail("channel-model", "task %d: send completed although chan%d was full", tk.id, m.id)
		}
	case lua.VerifChanRecv, lua.VerifChanSelect:
		if tk.kind == kBlocked && tk.fired {
			return nil // the cancelled operation returned; checked when the task ends
		}
		idx := 0
		if pre.op == lua.VerifChanSelect {
			idx = post.pos
			nready := 0
			for i := 0; i < pre.ncases; i++ {
				if sc.recvReady(pre, i) {
					nready++
				}
			}
			if nready >= 2 {
				sc.st.Probe("select_multi_ready")
			}
			if idx < 0 || idx >= pre.ncases {
				return fail("select-unready-case", "task %d: select returned case %d of %d", tk.id, idx, pre.ncases)
			}
			if pre.hasDef && pre.chans[idx] == 0 && !pre.send[idx] {
				// the default case: taken only when no other case can proceed
				if nready > 0 {
					return fail("select-unready-case", "task %d: select took its default case although %d receive case(s) were ready", tk.id, nready)
				}
				sc.st.Probe("select_default_taken")
				return nil
			}
			if !sc.recvReady(pre, idx) {
				return fail("select-unready-case", "task %d: select completed case %d, which was not ready", tk.id, idx)
			}
		}
		m := sc.chanOf(pre, idx)
		switch {
		case len(m.buf) > 0:
			if !post.ok {
				return fail("channel-delivery", "task %d: receive reported closure although chan%d holds %d values", tk.id, m.id, len(m.buf))
			}
			v := m.buf[0]
			m.buf = m.buf[1:]
			if f := fmtFor(tk, v, sc.whichIndex(tk, pre.chans[idx])); f != "" {
				tk.expect = append(tk.expect, f)
			}
		case m.closed:
			if post.ok {
				return fail("channel-delivery", "task %d: receive on the closed and drained chan%d reported ok=true", tk.id, m.id)
			}
			sc.st.Probe("receive_on_closed_drained")
			if tk.kind == kConsumer || tk.kind == kSelectConsumer {
				tk.expect = append(tk.expect, "closed")
			}
		default:
			return fail("channel-model", "task %d: receive completed on the empty open chan%d without a partner", tk.id, m.id)
		}
	}
	return nil
}

func (sc *sched) checkBlocked(tk *task, fail func(string, string, ...interface{}) *core.Violation) *core.Violation {
	if !tk.fired {
		return fail("harness", "blocked task %d ended before its context was fired: %s", tk.id, tk.err)
	}
	if !strings.Contains(tk.err, hostapi.CancelReason) {
		return fail("no-cancel-error", "task %d %s: the entry point returned %q, which does not carry the context's reason", tk.id, tk.name, tk.err)
	}
	if len(tk.trace) != 1 || tk.trace[0] != "E:'before'" {
		return fail("not-exact-prefix", "task %d %s: instructions completed after the context was done: trace %v", tk.id, tk.name, tk.trace)
	}
	return nil
}

// drain lets every unfinished task run to its end (their contexts fired, channels closed) so that no
// goroutine of this run is alive when the next run starts.
func (sc *sched) drain() {
	for i := 0; i < 200; i++ {
		alive := false
		for _, tk := range sc.tasks {
			if tk.done {
				continue
			}
			if !tk.mb.isParked() {
				// stuck in a real blocking operation: serve it (receive what it sends, send it a nil)
				for _, m := range sc.chans {
					select {
					case <-m.ch:
					default:
					}
					select {
					case m.ch <- lua.LNil:
					default:
					}
				}
				if _, ok := tk.mb.waitParked(2000); !ok {
					continue
				}
			}
			p, _ := tk.mb.waitParked(10)
			if p.kind == parkDone {
				tk.done = true
				continue
			}
			alive = true
			tk.mb.setAbort() // force the run to unwind at the next instruction
			if tk.ctx != nil {
				tk.ctx.Fire()
			}
			tk.mb.release(1 << 40)
			if p2, ok := tk.mb.waitParked(3000); ok && p2.kind == parkDone {
				tk.done = true
			}
		}
		if !alive {
			return
		}
	}
}
