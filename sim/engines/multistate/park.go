package multistate

import (
	"syscall"
	"unsafe"
)

// Parking that is invisible to the race detector. Tasks and the scheduler hand
// control to each other through mailbox words that are only ever touched inside
// //go:norace functions and a raw futex system call. The race detector therefore
// sees no happens-before edge created by the simulator: the only edges between
// task goroutines are goroutine creation, the final join, and gopher-lua's own
// channel operations - exactly the edges a real deployment has. With the binary
// built -race, conflicting unsynchronised accesses to shared memory are reported
// although the tasks never run simultaneously.

const (
	futexWaitOp = 0
	futexWakeOp = 1
	sysFutex    = 202 // amd64
)

type timespec struct {
	sec  int64
	nsec int64
}

//go:norace
func futexWait(addr *uint32, val uint32, ms int64) {
	ts := timespec{sec: ms / 1000, nsec: (ms % 1000) * 1000000}
	syscall.Syscall6(sysFutex, uintptr(unsafe.Pointer(addr)), futexWaitOp, uintptr(val), uintptr(unsafe.Pointer(&ts)), 0, 0)
}

//go:norace
func futexWake(addr *uint32) {
	syscall.Syscall6(sysFutex, uintptr(unsafe.Pointer(addr)), futexWakeOp, 1<<30, 0, 0, 0)
}

// pendingOp is what a parked task publishes to the scheduler.
type pendingOp struct {
	kind   int // parkStart, parkStep, parkChanPre, parkChanPost, parkDone
	op     int // channel operation kind (send/recv/select/close)
	ncases int
	chans  [4]uintptr
	send   [4]bool
	hasDef bool
	pos    int  // post: chosen case
	ok     bool // post: ok flag
}

const (
	parkStart = iota
	parkStep
	parkChanPre
	parkChanPost
	parkDone
)

// mailbox is the per-task hand-off area. All fields are accessed only inside
// //go:norace functions.
type mailbox struct {
	parked uint32 // 1: the task is parked (or done) and has published pend
	goFlag uint32 // 1: the scheduler has released the task
	budget int64
	abort  uint32
	pend   pendingOp
	_      [64]byte
}

// park publishes p and blocks until the scheduler releases the task; it returns
// the instruction budget granted.
//
//go:norace
func (m *mailbox) park(p pendingOp) int64 {
	m.pend = p
	m.parked = 1
	futexWake(&m.parked)
	for m.goFlag == 0 {
		futexWait(&m.goFlag, 0, 1000)
	}
	m.goFlag = 0
	return m.budget
}

// finish publishes the final state (the task never runs again).
//
//go:norace
func (m *mailbox) finish() {
	m.pend = pendingOp{kind: parkDone}
	m.parked = 1
	futexWake(&m.parked)
}

// release lets the task run with the given budget.
//
//go:norace
func (m *mailbox) release(budget int64) {
	m.parked = 0
	m.budget = budget
	m.goFlag = 1
	futexWake(&m.goFlag)
}

// waitParked blocks until the task has parked again (or finished); it returns
// false on a real-time timeout (the task is stuck in a blocking operation).
//
//go:norace
func (m *mailbox) waitParked(timeoutMs int64) (pendingOp, bool) {
	waited := int64(0)
	for m.parked == 0 {
		if waited >= timeoutMs {
			return pendingOp{}, false
		}
		futexWait(&m.parked, 0, 50)
		waited += 50
	}
	return m.pend, true
}

//go:norace
func (m *mailbox) isParked() bool { return m.parked == 1 }

// setAbort makes the task unwind at its next instruction boundary (used only when draining a run).
//
//go:norace
func (m *mailbox) setAbort() { m.abort = 1 }

//go:norace
func (m *mailbox) aborted() bool { return m.abort == 1 }
