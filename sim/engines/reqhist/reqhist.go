// Package reqhist is the C20 engine: seeded histories of require / preload /
// unload / module-file writes, deletes and torn writes over a small set of
// names, checked against a model of package.loaded.
package reqhist

import (
	"fmt"
	"os"
	"path/filepath"
	"runtime/debug"
	"sort"
	"strings"

	lua "github.com/yuin/gopher-lua"

	"luasim/core"
)

type Engine struct{}

func New() core.Engine { return &Engine{} }

func (e *Engine) Name() string         { return "reqhist" }
func (e *Engine) Properties() []string { return []string{"C20"} }
func (e *Engine) Level() string        { return "exploration" }
func (e *Engine) Rule() string {
	return "one run = one history of <=25 operations over the names a, b, c, a.b with module files in a private directory on package.path: write a module file (returns a table/string/number, returns nothing, assigns package.loaded itself, both, raises, requires other names so that chains and cycles arise), torn write (file truncated inside its do...end wrapper), delete, replace by a directory, preload from Lua or via PreloadModule, RegisterModule, package.loaded[name]=nil, require under pcall, and an injected error at an instruction inside a running loader. Every loader logs when it runs. Oracle: model of Lua 5.1 require as far as the statement fixes it (after a failed load an error or a fresh run are both accepted). The sub-mode 'short' samples histories of <=3 operations over 2 names from a reduced alphabet. distinct_nontrivial = distinct histories with at least one require that ran a loader"
}
func (e *Engine) RealComponents() []string {
	return []string{"loRequire, package.loaders (preload and Lua file searchers), loFindFile (os.Stat), LoadFile", "LState.PreloadModule / RegisterModule", "the kernel's file system on a private directory", "VM"}
}
func (e *Engine) StubComponents() []string {
	return []string{"module files and their behaviours (written by the simulator)", "the reference model of package.loaded (oracle)"}
}
func (e *Engine) Assumptions() []string {
	return []string{"after a failed load the statement is silent: an error or a fresh run of the loader are both accepted on the next require, never a successful return of a placeholder",
		"when a loader both assigns package.loaded[name] and returns another non-nil value, either may be the cached value, but the first and every later require must return the identical one",
		"loaders never return false"}
}

var names = []string{"a", "b", "c", "a.b", "p%q"} // the last one: a name that must never be used as a format

// behaviour of a loader
type beh struct {
	ver     int      // unique version id
	deps    []string // names required first (under pcall)
	assign  bool     // package.loaded[name] = mk(name)
	ret     int      // 0 nothing, 1 table, 2 string, 3 number, 4 true
	raise   bool     // raises after deps/assign
	torn    bool     // syntactically broken file
	preload bool
	goSide  bool // registered through L.PreloadModule
	inCo    bool // the dependencies are required from inside a coroutine created by the loader
	// useModule: the loader calls module(name, package.seeall), the standard way of assigning package.loaded[name]
	// oneself; the module table lives on in the global of that name and is found again by a later load
	useModule bool
	// clears: before it returns its value the loader takes its own entry out of package.loaded again (= nil or false),
	// as a loader does that does not want a half-built module to be seen; the value it returns is the module all the same
	clears int // 0 no, 1 nil, 2 false
}

func (b *beh) id() string {
	k := "f"
	if b.preload {
		k = "p"
	}
	if b.goSide {
		k = "g"
	}
	return fmt.Sprintf("%s%d", k, b.ver)
}

func (b *beh) String() string {
	var parts []string
	if len(b.deps) > 0 {
		parts = append(parts, "requires "+strings.Join(b.deps, ","))
		if b.inCo {
			parts = append(parts, "from inside a coroutine")
		}
	}
	if b.assign {
		parts = append(parts, "assigns package.loaded")
	}
	if b.useModule {
		parts = append(parts, "calls module()")
	}
	if b.clears > 0 {
		parts = append(parts, "clears its package.loaded entry")
	}
	parts = append(parts, []string{"returns nothing", "returns a table", "returns a string", "returns a number", "returns true", "returns a userdata"}[b.ret])
	if b.raise {
		parts = append(parts, "raises")
	}
	if b.torn {
		parts = append(parts, "TORN")
	}
	return b.id() + "{" + strings.Join(parts, "; ") + "}"
}

func body(name string, b *beh) string {
	var sb strings.Builder
	fmt.Fprintf(&sb, "LOG[#LOG+1] = \"run:%s:%s\"\n", name, b.id())
	if b.inCo && len(b.deps) > 0 {
		sb.WriteString("coroutine.wrap(function()\n")
	}
	for _, d := range b.deps {
		fmt.Fprintf(&sb, "do local ok, r = pcall(require, %q); LOG[#LOG+1] = \"dep:%s:%s:\" .. (ok and \"ok\" or (tostring(r):find(\"loop\") and \"loop\" or \"err\")) end\n", d, name, d)
	}
	if b.inCo && len(b.deps) > 0 {
		sb.WriteString("end)()\n")
	}
	if b.assign {
		fmt.Fprintf(&sb, "package.loaded[%q] = mk(%q, \"A\")\n", name, name)
	}
	if b.useModule {
		fmt.Fprintf(&sb, "module(%q, package.seeall)\nif not id then _G.CNT = _G.CNT + 1; id = \"M:\" .. _NAME .. \"#\" .. _G.CNT end\n", name)
	}
	if b.raise {
		fmt.Fprintf(&sb, "error(\"LOADFAIL:%s\")\n", name)
	}
	if b.clears > 0 {
		fmt.Fprintf(&sb, "package.loaded[%q] = %s\n", name, []string{"", "nil", "false"}[b.clears])
	}
	switch b.ret {
	case 1:
		fmt.Fprintf(&sb, "return mk(%q, \"R\")\n", name)
	case 2:
		fmt.Fprintf(&sb, "return \"str:%s:%d\"\n", name, b.ver)
	case 3:
		fmt.Fprintf(&sb, "return %d\n", 1000+b.ver)
	case 4:
		sb.WriteString("return true\n")
	case 5:
		fmt.Fprintf(&sb, "return UD[%q]\n", name)
	}
	return sb.String()
}

const prelude = `
LOG = {}
CNT = 0
UD = {a = newproxy(), b = newproxy(), c = newproxy(), ["a.b"] = newproxy(), ["p%q"] = newproxy()}
function mk(n, k) CNT = CNT + 1; return {id = k .. ":" .. n .. "#" .. CNT} end
function desc(v)
  local ty = type(v)
  if ty == "table" then return "T:" .. tostring(v.id) end
  if ty == "string" then return "S:" .. v end
  if ty == "number" then return "D:" .. v end
  if ty == "boolean" then return v and "true" or "false" end
  if ty == "nil" then return "nil" end
  if ty == "userdata" then for k, u in pairs(UD) do if rawequal(u, v) then return "U:" .. k end end end
  return ty
end
function req(n)
  local ok, r = pcall(require, n)
  local log = table.concat(LOG, "|"); LOG = {}
  if ok then return "ok\1" .. desc(r) .. "\1" .. log .. "\1" .. desc(package.loaded[n]) end
  return "err\1" .. tostring(r) .. "\1" .. log .. "\1" .. desc(package.loaded[n])
end
`

// model state
type mstate struct {
	loaded   map[string]string // name -> value descriptor ("" = absent)
	poisoned map[string]bool   // a load of this name failed (or is in progress): sentinel may be left
	files    map[string]*beh   // name -> file behaviour (nil = absent)
	isDir    map[string]bool
	preload  map[string]*beh
	inits    map[string]*beh   // name -> behaviour of <name>/init.lua (found by the second template when <name>.lua is absent)
	modTab   map[string]string // name -> descriptor of the table module(name) created (it stays in the global)
}

type outcome struct {
	ok   bool
	val  string // predicted value descriptor pattern ("T:R:a#?" style handled by matchVal) or "" if unknown
	alts []string
	errK string // loop | notfound | fail
	log  []string
}

type modelRun struct {
	st       *mstate
	stack    []string
	log      []string
	cnt      *int
	failedOK map[string]bool
}

func fileKey(name string) string { return strings.Replace(name, ".", string(os.PathSeparator), -1) }

// predict what require(name) does. Returns ok, value alternatives, error kind.
func (m *modelRun) require(name string) (ok bool, vals []string, errK string) {
	st := m.st
	if v := st.loaded[name]; v != "" && v != "false" {
		return true, []string{v}, ""
	}
	for _, s := range m.stack {
		if s == name {
			return false, nil, "loop"
		}
	}
	if st.poisoned[name] {
		// previous failure: the statement is silent; the caller resolves this against the observation
		return false, nil, "poisoned"
	}
	var b *beh
	if p := st.preload[name]; p != nil {
		b = p
	} else if st.isDir[name] {
		// the searcher fails while loading: no sentinel has been planted yet
		return false, nil, "fail"
	} else if f := st.files[name]; f != nil {
		b = f
	} else if f := st.inits[name]; f != nil {
		b = f
	} else {
		return false, nil, "notfound"
	}
	if b.torn {
		// the searcher fails while loading the file: the sentinel has not been planted yet
		return false, nil, "fail"
	}
	m.stack = append(m.stack, name)
	defer func() { m.stack = m.stack[:len(m.stack)-1] }()
	m.log = append(m.log, fmt.Sprintf("run:%s:%s", name, b.id()))
	for _, d := range b.deps {
		dok, _, dk := m.require(d)
		res := "ok"
		if !dok {
			res = "err"
			if dk == "loop" {
				res = "loop"
			}
			if dk == "poisoned" {
				res = "?"
			}
		}
		m.log = append(m.log, fmt.Sprintf("dep:%s:%s:%s", name, d, res))
	}
	assigned := ""
	if b.assign {
		*m.cnt++
		assigned = fmt.Sprintf("T:A:%s#%d", name, *m.cnt)
		st.loaded[name] = assigned
	}
	if b.useModule {
		if st.modTab[name] == "" {
			*m.cnt++
			st.modTab[name] = fmt.Sprintf("T:M:%s#%d", name, *m.cnt)
		}
		assigned = st.modTab[name]
		st.loaded[name] = assigned
	}
	if b.raise {
		if assigned == "" {
			st.poisoned[name] = true
		}
		return false, nil, "fail"
	}
	ret := ""
	switch b.ret {
	case 1:
		*m.cnt++
		ret = fmt.Sprintf("T:R:%s#%d", name, *m.cnt)
	case 2:
		ret = fmt.Sprintf("S:str:%s:%d", name, b.ver)
	case 3:
		ret = fmt.Sprintf("D:%d", 1000+b.ver)
	case 4:
		ret = "true"
	case 5:
		ret = "U:" + name
	}
	if b.goSide {
		*m.cnt++
		ret = fmt.Sprintf("T:G:%s#%d", name, *m.cnt)
	}
	switch {
	case assigned != "" && ret != "":
		return true, []string{assigned, ret}, ""
	case assigned != "":
		return true, []string{assigned}, ""
	case ret != "":
		st.loaded[name] = ret
		return true, []string{ret}, ""
	}
	st.loaded[name] = "true"
	return true, []string{"true"}, ""
}

func (e *Engine) Run(t *core.Tape, cfg *core.Config, st *core.Stats) (viol *core.Violation) {
	dir, err := os.MkdirTemp("", "reqhist")
	if err != nil {
		panic(err)
	}
	defer os.RemoveAll(dir)
	L := lua.NewState()
	defer L.Close()
	// the libraries the host opened are modules registered by the host: each answers require with the table bound to
	// its global name
	if err := L.DoString(`for _, n in ipairs({"package", "string", "table", "coroutine", "math", "os", "io", "debug", "channel", "_G"}) do
  local ok, m = pcall(require, n)
  if not ok or m ~= _G[n] then LIBFAIL = n .. ": " .. tostring(m) break end
end`); err != nil {
		panic(err)
	}
	if s := L.GetGlobal("LIBFAIL"); s != lua.LNil {
		return core.Violationf("host-module", "in a default state, require of a library the host opened must return the table bound to its global name; require %s", s.String())
	}
	if err := L.DoString(prelude); err != nil {
		panic(err)
	}
	// injected fault: a one-shot error raised at a chosen instruction boundary (inside a running loader)
	var steps, faultAt int64
	faultFired := false
	lua.VerifSetStepHook(L, func(L *lua.LState) {
		steps++
		if faultAt != 0 && steps == faultAt {
			faultAt = 0
			faultFired = true
			L.RaiseError("SIMFAULT injected into a running loader")
		}
	})
	// the third template runs through a regular file: looking a module up there fails with "not a directory",
	// not with "no such file" - it was tried all the same and belongs into the not-found message
	plain := filepath.Join(dir, "plainfile")
	if err := os.WriteFile(plain, []byte("x"), 0o600); err != nil {
		panic(err)
	}
	pathVal := filepath.Join(dir, "?.lua") + ";" + filepath.Join(dir, "?", "init.lua") + ";" + filepath.Join(plain, "?.lua") + ";" // and an empty template at the end
	L.SetField(L.GetGlobal("package"), "path", lua.LString(pathVal))
	ms := &mstate{loaded: map[string]string{}, poisoned: map[string]bool{}, files: map[string]*beh{}, isDir: map[string]bool{}, preload: map[string]*beh{}, inits: map[string]*beh{}, modTab: map[string]string{}}
	cnt := 0
	ver := 0
	var log []string
	ranLoader := false
	fail := func(class, format string, args ...interface{}) *core.Violation {
		return core.Violationf(class, "%s\nhistory:\n  %s", fmt.Sprintf(format, args...), strings.Join(log, "\n  "))
	}
	runLua := func(code string) (string, *core.Violation) {
		var res string
		var v *core.Violation
		func() {
			defer func() {
				if r := recover(); r != nil {
					v = fail("escape", "Go panic left the call: %v\n%s", r, trimS(string(debug.Stack()), 1500))
				}
			}()
			fn, err := L.LoadString(code)
			if err != nil {
				panic("harness: " + err.Error() + "\n" + code)
			}
			L.Push(fn)
			if err := L.PCall(0, 1, nil); err != nil {
				v = fail("unexpected-error", "snippet raised: %v\n%s", err, code)
				return
			}
			res = L.ToString(-1)
			L.Pop(1)
		}()
		return res, v
	}
	drawBeh := func(name string, reduced bool) *beh {
		ver++
		b := &beh{ver: ver}
		b.ret = t.Choose(6)
		b.assign = t.Choose(4) == 0
		b.raise = t.Choose(6) == 0
		if !reduced {
			nd := []int{0, 0, 1, 1, 2}[t.Choose(5)]
			for i := 0; i < nd; i++ {
				b.deps = append(b.deps, names[t.Choose(len(names))])
			}
		} else if t.Choose(3) == 0 {
			b.deps = []string{names[t.Choose(2)]}
		}
		b.inCo = len(b.deps) > 0 && t.Choose(4) == 0
		if !b.assign && !strings.Contains(name, ".") && t.Choose(5) == 0 {
			b.useModule = true
		}
		if !b.assign && !b.useModule && !b.raise && b.ret != 0 && b.ret != 4 && t.Choose(8) == 0 {
			b.clears = 1 + t.Choose(2)
		}
		return b
	}
	reduced := cfg.Sub == "short"
	lazySeq := 0
	// resyncMod reads back which module tables module() has left in the globals (after a run whose course the model
	// does not know: an injected error, a dependency whose earlier load had failed)
	resyncMod := func() *core.Violation {
		for _, n := range names {
			if strings.Contains(n, ".") {
				continue
			}
			d, v := runLua(fmt.Sprintf("local g = rawget(_G, %q); if type(g) == \"table\" and type(rawget(g, \"id\")) == \"string\" then return \"T:\" .. rawget(g, \"id\") end; return \"\"", n))
			if v != nil {
				return v
			}
			ms.modTab[n] = d
		}
		return nil
	}
	nn := len(names)
	if reduced {
		nn = 2
	}
	nops := 3 + t.Choose(23)
	if reduced {
		nops = 1 + t.Choose(3)
	}
	for i := 0; i < nops; i++ {
		name := names[t.Choose(nn)]
		fpath := filepath.Join(dir, fileKey(name)+".lua")
		switch k := t.Weighted([]int{8, 5, 1, 1, 3, 2, 2, 1, 1, 1, 1, 1, 1, 1, 1, 1, 1}); k {
		case 0: // require
			if !reduced && t.Choose(6) == 0 {
				// require with an error injected at an arbitrary instruction while loaders run
				before := map[string]string{}
				for _, n := range names {
					before[n] = ms.loaded[n]
				}
				faultFired = false
				faultAt = steps + 8 + int64(t.Choose(60))
				res, v := runLua(fmt.Sprintf("return req(%q)", name))
				faultAt = 0
				if v != nil && v.Class == "unexpected-error" && strings.Contains(v.Detail, "SIMFAULT") {
					// the injected error landed in the harness snippet around require, not inside it
					v, res = nil, "err\x01(fault in the harness snippet)\x01\x01"
					if _, v2 := runLua("LOG = {}; return \"\""); v2 != nil {
						return v2
					}
				}
				if v != nil {
					return v
				}
				parts := strings.SplitN(res, "\x01", 4)
				log = append(log, fmt.Sprintf("require(%q) with an injected error (fired: %v) -> %s %s", name, faultFired, parts[0], firstLine(parts[1])))
				if faultFired {
					st.Fault("raise_in_loader")
				}
				// whatever happened: modules that were cached before are still cached with the identical value,
				// and nothing that is not a module value sits in package.loaded as a success
				for _, n := range names {
					d, v := runLua(fmt.Sprintf("return desc(package.loaded[%q])", n))
					if v != nil {
						return v
					}
					if b := before[n]; b != "" && b != "false" && d != b && faultFired {
						return fail("cache-mismatch", "after a require that was hit by an injected error, package.loaded[%q] changed from %s to %s although it was loaded before", n, b, d)
					}
					switch {
					case d == "nil", d == "false": // (false: a loader that clears its entry was interrupted behind that statement)
						ms.loaded[n] = ""
					case d == "userdata":
						ms.loaded[n] = ""
						ms.poisoned[n] = true
					case strings.HasPrefix(d, "T:") || strings.HasPrefix(d, "S:str:") || strings.HasPrefix(d, "D:1") || strings.HasPrefix(d, "U:") || d == "true":
						ms.loaded[n] = d
						if faultFired {
							ms.poisoned[n] = false
						}
					default:
						return fail("wrong-result", "package.loaded[%q] holds %s, which no loader produced", n, d)
					}
				}
				c, v := runLua("return tostring(CNT)")
				if v != nil {
					return v
				}
				fmt.Sscan(c, &cnt)
				if v := resyncMod(); v != nil {
					return v
				}
				continue
			}
			mr := &modelRun{st: ms, cnt: &cnt}
			pre := ms.loaded[name]
			wasPoisoned := ms.poisoned[name]
			res, v := runLua(fmt.Sprintf("return req(%q)", name))
			if v != nil {
				return v
			}
			parts := strings.SplitN(res, "\x01", 4)
			for len(parts) < 4 {
				parts = append(parts, "")
			}
			gotOK, gotVal, gotLog, gotLoaded := parts[0] == "ok", parts[1], parts[2], parts[3]
			log = append(log, fmt.Sprintf("require(%q) -> %s %s   loaders run: [%s]   package.loaded[%q] = %s", name, parts[0], firstLine(gotVal), gotLog, name, gotLoaded))
			st.Steps++
			if strings.Contains(gotLog, "run:") {
				ranLoader = true
			}
			if wasPoisoned && pre == "" {
				// after a failed load: an error without running anything, or a fresh run
				if !gotOK && gotLog == "" {
					st.Probe("require_after_failure_errors")
					continue
				}
				ms.poisoned[name] = false
				st.Probe("require_after_failure_reruns")
			}
			// nested poisoned names are resolved optimistically (fresh run); if the observation disagrees
			// on exactly those dep entries the comparison below tolerates "?"
			ok, vals, errK := mr.require(name)
			fuzzy := false
			for _, l := range mr.log {
				if strings.HasSuffix(l, ":?") {
					fuzzy = true
				}
			}
			if fuzzy {
				// a dependency's earlier load had failed: its outcome is open, so object
				// numbering may differ; compare without the serial and resynchronise afterwards
				st.Probe("dependency_after_failure")
				gotVal, gotLoaded = stripSerial(gotVal), stripSerial(gotLoaded)
				for i := range vals {
					vals[i] = stripSerial(vals[i])
				}
			}
			// compare the loader log
			if d := cmpLog(strings.Split(gotLog, "|"), mr.log); d != "" {
				return fail("loader-runs", "require(%q): %s\nobserved: [%s]\nmodel:    [%s]", name, d, gotLog, strings.Join(mr.log, "|"))
			}
			switch {
			case ok && !gotOK:
				return fail("wrong-result", "require(%q) failed with %q, the model expects success with %v", name, firstLine(gotVal), vals)
			case !ok && gotOK:
				if errK == "poisoned" {
					break
				}
				return fail("wrong-result", "require(%q) returned %s, the model expects an error (%s): a placeholder or stale value must never be returned", name, gotVal, errK)
			case ok:
				found := false
				for _, a := range vals {
					if a == gotVal {
						found = true
					}
				}
				if !found {
					return fail("wrong-result", "require(%q) returned %s, the model expects one of %v", name, gotVal, vals)
				}
				if pre != "" && pre != "false" {
					st.Probe("cache_hit")
				}
				// the cached value is what was returned, and every later require returns the identical one
				if gotLoaded != gotVal {
					return fail("cache-mismatch", "require(%q) returned %s but package.loaded[%q] holds %s", name, gotVal, name, gotLoaded)
				}
				ms.loaded[name] = gotVal
			default:
				switch errK {
				case "loop":
					if !strings.Contains(gotVal, "loop") {
						return fail("wrong-error", "require(%q): a module requiring itself must be reported as a loop, got %q", name, firstLine(gotVal))
					}
					st.Probe("loop_error")
				case "notfound":
					for _, want := range []string{fpath, filepath.Join(dir, fileKey(name), "init.lua"), filepath.Join(plain, fileKey(name)+".lua"), "preload"} {
						if !strings.Contains(gotVal, want) {
							return fail("wrong-error", "require(%q): the not-found error must list what was tried (missing %q): %q", name, want, gotVal)
						}
					}
					st.Probe("notfound_error")
				case "fail":
					st.Fault("loader_failure")
				}
			}
			if fuzzy {
				// resynchronise the model with reality
				if v := resyncMod(); v != nil {
					return v
				}
				for _, n := range names {
					d, v := runLua(fmt.Sprintf("return desc(package.loaded[%q])", n))
					if v != nil {
						return v
					}
					switch d {
					case "nil":
						ms.loaded[n] = ""
					case "userdata":
						ms.loaded[n] = ""
						ms.poisoned[n] = true
					default:
						ms.loaded[n] = d
					}
				}
				c, v := runLua("return tostring(CNT)")
				if v != nil {
					return v
				}
				fmt.Sscan(c, &cnt)
			}
			// loops inside the chain
			if strings.Contains(gotLog, ":loop") {
				st.Probe("nested_loop_reported")
			}
		case 1: // write a module file
			if !reduced && name != "a" && !strings.Contains(name, ".") && t.Choose(6) == 0 {
				// the module as a directory with an init.lua (found by the second template, after <name>.lua)
				b := drawBeh(name, reduced)
				ip := filepath.Join(dir, fileKey(name), "init.lua")
				os.MkdirAll(filepath.Dir(ip), 0o755)
				if err := os.WriteFile(ip, []byte("do\n"+body(name, b)+"end\n"), 0o600); err != nil {
					panic(err)
				}
				ms.inits[name] = b
				log = append(log, fmt.Sprintf("write %s/init.lua: %s", fileKey(name), b))
				st.Probe("module_as_init_lua")
				continue
			}
			b := drawBeh(name, reduced)
			ms.isDir[name] = false
			os.RemoveAll(fpath)
			os.MkdirAll(filepath.Dir(fpath), 0o755)
			content := "do\n" + body(name, b) + "end\n"
			if !reduced && t.Choose(6) == 0 {
				// torn write: cut before the closing end completes
				cut := 3 + t.Choose(len(content)-6)
				content = content[:cut]
				b.torn = true
				st.Fault("torn_write")
			}
			if err := os.WriteFile(fpath, []byte(content), 0o600); err != nil {
				panic(err)
			}
			ms.files[name] = b
			log = append(log, fmt.Sprintf("write %s.lua: %s", fileKey(name), b))
		case 2: // delete
			os.RemoveAll(fpath)
			ms.files[name] = nil
			ms.isDir[name] = false
			log = append(log, fmt.Sprintf("delete %s.lua", fileKey(name)))
			st.Fault("file_deleted")
		case 3: // the path becomes a directory
			if reduced {
				continue
			}
			os.RemoveAll(fpath)
			os.MkdirAll(fpath, 0o755)
			ms.files[name] = nil
			ms.isDir[name] = true
			log = append(log, fmt.Sprintf("%s.lua is now a directory", fileKey(name)))
			st.Fault("path_is_directory")
		case 4: // preload from Lua
			b := drawBeh(name, reduced)
			b.preload = true
			if _, v := runLua(fmt.Sprintf("package.preload[%q] = function(...)\n%send\nreturn \"\"", name, body(name, b))); v != nil {
				return v
			}
			ms.preload[name] = b
			log = append(log, fmt.Sprintf("package.preload[%q] = %s", name, b))
			st.Probe("preload_lua")
		case 5: // preload through the host API
			ver++
			b := &beh{ver: ver, preload: true, goSide: true}
			id := b.id()
			nm := name
			rereg := t.Choose(3) == 0 // the loader registers itself again while it runs (a host library's "register all")
			var loader lua.LGFunction
			loader = func(L *lua.LState) int {
				if rereg {
					L.PreloadModule(nm, loader)
				}
				lg := L.GetGlobal("LOG").(*lua.LTable)
				lg.Append(lua.LString(fmt.Sprintf("run:%s:%s", nm, id)))
				L.Push(L.GetGlobal("mk"))
				L.Push(lua.LString(nm))
				L.Push(lua.LString("G"))
				L.Call(2, 1)
				return 1
			}
			L.PreloadModule(name, loader)
			if rereg {
				st.Probe("go_loader_registers_itself_again")
			}
			ms.preload[name] = b
			log = append(log, fmt.Sprintf("L.PreloadModule(%q) %s", name, b))
			st.Probe("preload_host")
		case 6: // unload
			if _, v := runLua(fmt.Sprintf("package.loaded[%q] = nil; return \"\"", name)); v != nil {
				return v
			}
			ms.loaded[name] = ""
			ms.poisoned[name] = false
			log = append(log, fmt.Sprintf("package.loaded[%q] = nil", name))
		case 7: // host-registered module: reachable through require and through its global, the same object
			if reduced {
				continue
			}
			hm := []string{"hostmod0", "hostmod1", "hostpkg.util", "hostpkg.sub.deep", "hostmod0.ext"}[t.Choose(5)]
			L.RegisterModule(hm, map[string]lua.LGFunction{"f": func(L *lua.LState) int { return 0 }})
			res, v := runLua(fmt.Sprintf("local ok, r = pcall(require, %q); return tostring(ok) .. \":\" .. tostring(rawequal(r, %s)) .. \":\" .. type(%s)", hm, hm, hm))
			if v != nil {
				return v
			}
			log = append(log, fmt.Sprintf("L.RegisterModule(%q); require -> %s", hm, res))
			if res != "true:true:table" {
				return fail("host-module", "a module registered by the host must be reachable through require and through its global as the same object; got ok:rawequal:type = %s", res)
			}
			st.Probe("host_registered_module")
		case 10: // a loader that fails under xpcall: the handler runs while the loader's frames are still on the stack
			if reduced || ms.preload[name] != nil || strings.Contains(name, "%") {
				continue
			}
			ver++
			b := &beh{ver: ver, raise: true}
			os.RemoveAll(fpath)
			os.MkdirAll(filepath.Dir(fpath), 0o755)
			if err := os.WriteFile(fpath, []byte("do\n"+body(name, b)+"end\n"), 0o600); err != nil {
				panic(err)
			}
			ms.files[name] = b
			ms.isDir[name] = false
			res, v := runLua(fmt.Sprintf("package.loaded[%q] = nil; local ok, tb = xpcall(function() return require(%q) end, function(e) return debug.traceback(tostring(e), 1) end); LOG = {}; package.loaded[%q] = nil; return tostring(ok) .. \"\\1\" .. tostring(tb)", name, name, name))
			if v != nil {
				return v
			}
			log = append(log, fmt.Sprintf("write %s.lua: %s; xpcall(require, traceback) -> %s", fileKey(name), b, firstLine(res)))
			if !strings.HasPrefix(res, "false\x01") || !strings.Contains(res, "LOADFAIL:"+name) {
				return fail("wrong-result", "require of a module whose loader raises, under xpcall: got %q", res)
			}
			if !strings.Contains(res, fileKey(name)+".lua") || strings.Count(res, "\n") < 3 {
				return fail("handler-after-unwinding", "require of a module whose loader raises, under xpcall with a traceback handler: the traceback does not show the loader's frames (%s.lua): the handler ran after the stack was unwound\n%s", fileKey(name), res)
			}
			ms.loaded[name] = ""
			ms.poisoned[name] = false
			st.Probe("loader_failure_under_xpcall")
		case 11: // package.preload is replaced by a new table with the same entries: later registrations go there
			if reduced {
				continue
			}
			if _, v := runLua("local new = {}; for k, v in pairs(package.preload) do new[k] = v end; package.preload = new; return \"\""); v != nil {
				return v
			}
			log = append(log, "package.preload = (a new table with the same entries)")
			st.Probe("preload_table_replaced")
		case 12: // a host module registered under a parent that inherits from the globals (module(..., package.seeall))
			if reduced {
				continue
			}
			lazySeq++
			parent := fmt.Sprintf("hostparent%d", lazySeq)
			if _, v := runLua(fmt.Sprintf("local f = loadstring([[module(%q, package.seeall)]]); f(); package.loaded[%q] = nil; return \"\"", parent, parent)); v != nil {
				return v
			}
			hm := parent + "." + []string{"string", "table", "mk", "LOG"}[t.Choose(4)]
			L.RegisterModule(hm, map[string]lua.LGFunction{"f": func(L *lua.LState) int { L.Push(lua.LNumber(7)); return 1 }})
			leaf := hm[len(parent)+1:]
			res, v := runLua(fmt.Sprintf("local ok, r = pcall(require, %q); return tostring(ok) .. \":\" .. type(r) .. \":\" .. tostring(rawequal(r, rawget(%s, %q))) .. \":\" .. tostring(rawequal(r, _G[%q])) .. \":\" .. tostring(type(r) == \"table\" and r.f and r.f()) .. \":\" .. tostring(type(_G[%q]) == \"table\" and rawget(_G[%q], \"f\"))", hm, parent, leaf, leaf, leaf, leaf))
			if v != nil {
				return v
			}
			log = append(log, fmt.Sprintf("module(%q, package.seeall); L.RegisterModule(%q); require -> %s", parent, hm, res))
			if res != "true:table:true:false:7:nil" && res != "true:table:true:false:7:false" {
				return fail("host-module", "a host module registered under a parent that inherits from the globals must be its own table inside the parent, not the global of the same leaf name; got ok:type:in-parent:is-the-global:f():global.f = %s", res)
			}
			st.Probe("host_module_under_seeall_parent")
		case 13: // package.loaded gets a metatable that keeps every entry in a side table (a module tracker)
			if reduced {
				continue
			}
			if _, v := runLua("if not TRACK then TRACK = {}; for k, v in pairs(package.loaded) do TRACK[k] = v; rawset(package.loaded, k, nil) end; setmetatable(package.loaded, {__index = TRACK, __newindex = function(t, k, v) TRACK[k] = v end}) end; return \"\""); v != nil {
				return v
			}
			log = append(log, "package.loaded now keeps its entries in a side table (metatable with __index and __newindex)")
			st.Probe("package_loaded_with_metatable")
		case 14: // a sandbox state without the package library: host modules and opened libraries answer require from the cache
			if reduced {
				continue
			}
			var res string
			func() {
				defer func() {
					if r := recover(); r != nil {
						res = fmt.Sprintf("Go panic: %v", r)
					}
				}()
				S := lua.NewState(lua.Options{SkipOpenLibs: true})
				defer S.Close()
				for _, pair := range []struct {
					n string
					f lua.LGFunction
				}{{lua.BaseLibName, lua.OpenBase}, {lua.StringLibName, lua.OpenString}} {
					S.Push(S.NewFunction(pair.f))
					S.Push(lua.LString(pair.n))
					S.Call(1, 0)
				}
				S.RegisterModule("sandmod", map[string]lua.LGFunction{"f": func(L *lua.LState) int { L.Push(lua.LNumber(7)); return 1 }})
				if err := S.DoString("local a, b = require(\"sandmod\"), require(\"string\"); R = tostring(rawequal(a, sandmod)) .. \":\" .. tostring(rawequal(b, string)) .. \":\" .. tostring(a.f())"); err != nil {
					res = "error: " + err.Error()
					return
				}
				res = S.GetGlobal("R").String()
			}()
			log = append(log, fmt.Sprintf("sandbox state (base and string only): require of a host module and of an opened library -> %s", firstLine(res)))
			if res != "true:true:7" {
				return fail("host-module", "in a state without the package library, require of a registered host module and of an opened library must return the tables bound to their global names; got %s", res)
			}
			st.Probe("sandbox_state_require")
		case 16: // the host registers functions under a module name twice (a library opened in two steps, a plug-in that adds to a module)
			if reduced {
				continue
			}
			lazySeq++
			hm := fmt.Sprintf("hosttwice%d", lazySeq)
			num := func(n int) lua.LGFunction {
				return func(L *lua.LState) int { L.Push(lua.LNumber(n)); return 1 }
			}
			scripted := t.Choose(3) == 0
			if scripted {
				// the first table comes from a preload loader of the script, not from the host
				if _, v := runLua(fmt.Sprintf("package.preload[%q] = function() return {one = function() return 1 end} end; require(%q); return \"\"", hm, hm)); v != nil {
					return v
				}
			} else {
				L.RegisterModule(hm, map[string]lua.LGFunction{"one": num(1)})
				if t.Bool() {
					if _, v := runLua(fmt.Sprintf("require(%q); return \"\"", hm)); v != nil {
						return v
					}
				}
			}
			L.RegisterModule(hm, map[string]lua.LGFunction{"two": num(2)})
			res, v := runLua(fmt.Sprintf("local m = require(%q); local g = _G[%q]; return tostring(type(m) == \"table\" and m.one and m.one()) .. \":\" .. tostring(type(m) == \"table\" and m.two and m.two()) .. \":\" .. tostring(g == nil or rawequal(g, m))", hm, hm))
			if v != nil {
				return v
			}
			log = append(log, fmt.Sprintf("L.RegisterModule(%q, {two}) after the module existed with {one} (first table from the script: %v) -> one():two():global %s", hm, scripted, res))
			if res != "1:2:true" {
				return fail("host-module", "functions the host registers under the name of a module that already exists must be reachable through require like the earlier ones; got one():two():global-is-the-module = %s", res)
			}
			if !scripted {
				if res, v := runLua(fmt.Sprintf("return tostring(type(_G[%q]) == \"table\" and _G[%q].two and _G[%q].two())", hm, hm, hm)); v != nil {
					return v
				} else if res != "2" {
					return fail("host-module", "a function the host registered under an existing host module is not reachable through the module's global name: %s", res)
				}
			}
			st.Probe("host_module_registered_twice")
		case 15: // a searcher of the program's own that probes an optional module (a contained, failing require) while another require is searching
			if reduced {
				continue
			}
			var res string
			func() {
				defer func() {
					if r := recover(); r != nil {
						res = fmt.Sprintf("Go panic: %v", r)
					}
				}()
				S := lua.NewState()
				defer S.Close()
				S.SetGlobal("DIR", lua.LString(dir))
				depth := 1 + t.Choose(3)
				S.SetGlobal("DEPTH", lua.LNumber(depth))
				if err := S.DoString(`package.path = DIR .. "/?.lua;" .. DIR .. "/?/init.lua"
for i = 1, 2 do pcall(require, "optional_first_" .. i) end
local level = 0
table.insert(package.loaders, 2, function(name)
  if level < DEPTH then
    level = level + 1
    pcall(require, "inner_opt_" .. level)
    level = level - 1
  end
  return "\n\tnothing from the program's searcher for '" .. name .. "'"
end)
local ok, msg = pcall(require, "outer_missing")
RES = tostring(ok) .. "\1" .. tostring(msg)`); err != nil {
					res = "error: " + err.Error()
					return
				}
				res = S.GetGlobal("RES").String()
			}()
			log = append(log, fmt.Sprintf("fresh state: a searcher that probes optional modules while require(\"outer_missing\") searches -> %s", firstLine(res)))
			if !strings.HasPrefix(res, "false\x01") || !strings.Contains(res, "preload['outer_missing']") || !strings.Contains(res, "nothing from the program's searcher for 'outer_missing'") ||
				strings.Count(res, "outer_missing.lua") < 1 || strings.Contains(res, "inner_opt_") {
				return fail("wrong-error", "the not-found error of require(\"outer_missing\") must list what was tried for that module - the preload entry, the program's searcher, the path - and nothing that was tried for the optional modules its searcher probed meanwhile; got %q", res)
			}
			st.Probe("nested_require_inside_a_searcher")
		case 9: // a storm of failing loads: the same broken module is unloaded and required again many times
			if reduced {
				continue
			}
			n := []int{20, 60, 150, 199, 200, 201, 260, 400}[t.Choose(8)]
			ver++
			b := &beh{ver: ver, raise: true}
			if t.Bool() || ms.preload[name] != nil {
				b.preload = true
				if _, v := runLua(fmt.Sprintf("package.preload[%q] = function(...)\n%send\nreturn \"\"", name, body(name, b))); v != nil {
					return v
				}
				ms.preload[name] = b
			} else {
				os.RemoveAll(fpath)
				os.MkdirAll(filepath.Dir(fpath), 0o755)
				if err := os.WriteFile(fpath, []byte("do\n"+body(name, b)+"end\n"), 0o600); err != nil {
					panic(err)
				}
				ms.files[name] = b
				ms.isDir[name] = false
			}
			res, v := runLua(fmt.Sprintf("local fails = 0; for i = 1, %d do package.loaded[%q] = nil; local ok = pcall(require, %q); if not ok then fails = fails + 1 end end; LOG = {}; package.loaded[%q] = nil; return tostring(fails)", n, name, name, name))
			if v != nil {
				return v
			}
			log = append(log, fmt.Sprintf("storm: %d x (package.loaded[%q] = nil; pcall(require, %q)) over %s -> %s failures; package.loaded[%q] = nil", n, name, name, b, res, name))
			if res != fmt.Sprint(n) {
				return fail("wrong-result", "a loader that raises was required %d times (unloaded before each), %s requires failed", n, res)
			}
			ms.loaded[name] = ""
			ms.poisoned[name] = false
			st.Probe("failure_storm")
		case 8: // a host module opened lazily: the PreloadModule loader registers the module when it is first required
			if reduced {
				continue
			}
			lazySeq++
			hm := fmt.Sprintf("%s%d", []string{"hostlazy", "hostpkg.lazy"}[t.Choose(2)], lazySeq)
			stale := t.Choose(3) == 0
			if stale {
				// a script module of the same name that returned nothing was loaded (and forgotten by the host) before
				if _, v := runLua(fmt.Sprintf("package.loaded[%q] = true; return \"\"", hm)); v != nil {
					return v
				}
			}
			runs := 0
			L.PreloadModule(hm, func(L *lua.LState) int {
				runs++
				L.Push(L.RegisterModule(hm, map[string]lua.LGFunction{"f": func(L *lua.LState) int { L.Push(lua.LNumber(7)); return 1 }}))
				return 1
			})
			if stale {
				// the stale entry answers require; the host then registers the module itself
				L.RegisterModule(hm, map[string]lua.LGFunction{"f": func(L *lua.LState) int { L.Push(lua.LNumber(7)); return 1 }})
			}
			res, v := runLua(fmt.Sprintf("local ok, r = pcall(require, %q); local ok2, r2 = pcall(require, %q); return tostring(ok) .. \":\" .. type(r) .. \":\" .. tostring(rawequal(r, %s)) .. \":\" .. tostring(rawequal(r, r2)) .. \":\" .. tostring(rawequal(r, package.loaded[%q])) .. \":\" .. tostring(ok and type(r) == \"table\" and r.f and r.f())", hm, hm, hm, hm))
			if v != nil {
				return v
			}
			log = append(log, fmt.Sprintf("lazy host module %q (stale true entry first: %v): loader ran %d time(s); require -> %s", hm, stale, runs, res))
			if res != "true:table:true:true:true:7" || (!stale && runs != 1) {
				return fail("host-module", "a host module registered from inside its PreloadModule loader (or over a stale non-table entry) must be a table reachable through require (twice the same object), package.loaded and its global, its loader running once; got ok:type:global:again:loaded:f() = %s, loader runs %d", res, runs)
			}
			st.Probe("host_module_registered_lazily")
		}
	}
	st.Evals++
	st.D(uint64(core.NewHash().Str(strings.ReplaceAll(strings.Join(log, "\n"), dir, "DIR"))))
	if ranLoader {
		st.Distinct(uint64(core.NewHash().Str(strings.Join(log, "\n"))))
	}
	if st.WantSample() && len(log) > 3 {
		st.Sample(map[string]interface{}{"history": log})
	}
	return nil
}

// cmpLog compares observed and predicted loader logs; "?" in the model's dep
// result (a dependency whose earlier load had failed) matches ok or err.
func cmpLog(got, want []string) string {
	if len(got) == 1 && got[0] == "" {
		got = nil
	}
	// after a dependency with an unknown outcome the logs may legitimately diverge: compare up to it
	for i := 0; i < len(got) && i < len(want); i++ {
		if got[i] == want[i] {
			continue
		}
		if strings.HasSuffix(want[i], ":?") {
			return ""
		}
		// a poisoned dependency that re-ran shows run entries the model did not predict
		return fmt.Sprintf("loader log entry %d is %q, the model expects %q", i+1, got[i], want[i])
	}
	for _, w := range want {
		if strings.HasSuffix(w, ":?") {
			return ""
		}
	}
	if len(got) != len(want) {
		return fmt.Sprintf("%d loader log entries, the model expects %d", len(got), len(want))
	}
	return ""
}

func stripSerial(s string) string {
	if i := strings.LastIndex(s, "#"); i >= 0 && strings.HasPrefix(s, "T:") {
		return s[:i]
	}
	return s
}

func firstLine(s string) string {
	if i := strings.Index(s, "\n"); i >= 0 {
		s = s[:i] + " ..."
	}
	if len(s) > 160 {
		s = s[:160] + "..."
	}
	return s
}

func trimS(s string, n int) string {
	if len(s) > n {
		return s[:n] + "..."
	}
	return s
}

var _ = sort.Strings
