// Package limitswarm is the C12 engine: one program under many random Options
// (sizes straddling segment and grow-step boundaries), limit exhaustion as a
// recoverable fault, and refinement of the call-frame stacks and the registry
// against list models.
package limitswarm

import (
	"fmt"
	"os"
	"runtime/debug"
	"strings"

	lua "github.com/yuin/gopher-lua"

	"luasim/core"
	"luasim/hostapi"
	"luasim/ir"
	"luasim/model"
)

type Engine struct{}

func New() core.Engine { return &Engine{} }

func (e *Engine) Name() string         { return "limitswarm" }
func (e *Engine) Properties() []string { return []string{"C12"} }
func (e *Engine) Level() string        { return "exploration" }
func (e *Engine) Rule() string {
	return "one run = (a) a tape-chosen operation sequence (<=400 ops) driving a fixed and an auto-growing call-frame stack and a registry of drawn sizes against slice models, (b) a demand program (recursion depths and argument counts straddling the drawn limits, each demand in its own pcall) or a generated SimLua program, executed under a large reference configuration and under 8 (quick) / 24 (thorough) drawn Options with and without an undone context: within the measured demand the traces must be identical, at or over a limit each demand must give the reference result or a catchable *overflow* error and the state must keep working; limit exhaustion is the injected fault. distinct_nontrivial = distinct (program, Options) pairs plus distinct component operation sequences"
}
func (e *Engine) RealComponents() []string {
	return []string{"fixedCallFrameStack", "autoGrowingCallFrameStack (segment pool)", "registry (resize/forceResize/SetTop/CopyRange/FillNil/Insert)", "VM call paths (OP_CALL/OP_TAILCALL/callR/initCallFrame)", "stack overflow / registry overflow error paths", "NewThread option inheritance"}
}
func (e *Engine) StubComponents() []string {
	return []string{"context.Context (SimContext, never fired here)", "Options (the simulator randomises every knob)"}
}
func (e *Engine) Assumptions() []string {
	return []string{"'within limits' is decided conservatively from the demand measured in the reference run (frames + 8, registry top + 512 + 2*largest argument count)",
		"the component models state the documented contract of Push/Pop/SetSp/At/Last and of the registry operations as their callers use them (regv <= start in CopyRange, Set at or below top)"}
}

// ---------- (a) component refinement ----------

func (e *Engine) stackRefinement(t *core.Tape, st *core.Stats) (v *core.Violation) {
	size := []int{1, 2, 3, 7, 8, 9, 15, 16, 17, 23, 24, 25, 31, 32, 33, 40, 63, 64, 65, 66, 120, 255, 256, 257}[t.Choose(24)]
	auto := t.Bool()
	if auto && t.Choose(12) == 0 {
		// limits beyond 65536 segments of eight frames (the auto-growing stack allocates frames only as they are used)
		size = []int{524280, 524288, 524289, 524296, 600000}[t.Choose(5)]
		st.Probe("callstack_limit_beyond_65536_segments")
	}
	capacity := size
	if auto {
		capacity = (size + 7) / 8 * 8
	}
	var log []string
	defer func() {
		if r := recover(); r != nil {
			v = core.Violationf("callstack-refinement", "Go panic %v in call-frame stack (size %d, autoGrow %v) after ops:\n  %s\n%s", r, size, auto, strings.Join(tailS(log, 30), "\n  "), trim(string(debug.Stack()), 1200))
		}
	}()
	s := lua.VerifNewCallFrameStack(size, auto)
	var m []int
	next := 1
	nops := 30 + t.Choose(370)
	fail := func(format string, args ...interface{}) *core.Violation {
		return core.Violationf("callstack-refinement", "call-frame stack (size %d, autoGrow %v): %s\nops:\n  %s", size, auto, fmt.Sprintf(format, args...), strings.Join(tailS(log, 40), "\n  "))
	}
	// bias: phases of pushing to the top, then popping / unwinding
	mode := 0
	for i := 0; i < nops; i++ {
		if t.Choose(12) == 0 {
			mode = t.Choose(3)
		}
		w := [][]int{{6, 2, 1, 1}, {2, 6, 1, 1}, {3, 3, 3, 1}}[mode]
		switch t.Weighted(w) {
		case 0: // push
			if len(m) >= capacity {
				if !s.IsFull() {
					return fail("model holds %d frames (capacity %d) but IsFull() is false", len(m), capacity)
				}
				st.Probe("stack_full_reached")
				continue
			}
			if s.IsFull() {
				return fail("IsFull() is true with %d of %d frames", len(m), capacity)
			}
			log = append(log, fmt.Sprintf("Push(%d)", next))
			s.Push(next)
			m = append(m, next)
			next++
		case 1: // pop
			if len(m) == 0 {
				continue
			}
			log = append(log, "Pop()")
			tag, base, idx := s.Pop()
			want := m[len(m)-1]
			m = m[:len(m)-1]
			if tag != want || base != want*3 || idx != len(m) {
				return fail("Pop returned frame tag=%d base=%d idx=%d, want tag=%d base=%d idx=%d", tag, base, idx, want, want*3, len(m))
			}
		case 2: // SetSp to unwind
			if len(m) == 0 {
				continue
			}
			to := t.Choose(len(m) + 1)
			if t.Choose(3) == 0 {
				to = len(m) / 8 * 8 // a segment boundary
			}
			if t.Choose(6) == 0 {
				to = len(m) // no-op unwind (what PCall does on success)
			}
			log = append(log, fmt.Sprintf("SetSp(%d) from %d", to, len(m)))
			s.SetSp(to)
			m = m[:to]
			if to%8 == 0 {
				st.Probe("setsp_segment_boundary")
			}
		case 3:
			log = append(log, "Clear/none")
		}
		// invariants after every operation
		if s.Sp() != len(m) {
			return fail("Sp() = %d, model depth %d", s.Sp(), len(m))
		}
		if s.IsEmpty() != (len(m) == 0) {
			return fail("IsEmpty() = %v with model depth %d", s.IsEmpty(), len(m))
		}
		if s.IsFull() != (len(m) >= capacity) {
			return fail("IsFull() = %v with model depth %d of capacity %d", s.IsFull(), len(m), capacity)
		}
		if len(m) > 0 {
			tag, _, idx := s.Last()
			if tag != m[len(m)-1] || idx != len(m)-1 {
				return fail("Last() is frame tag=%d idx=%d, want tag=%d idx=%d", tag, idx, m[len(m)-1], len(m)-1)
			}
			j := t.Choose(len(m))
			tag, _, idx = s.At(j)
			if tag != m[j] || idx != j {
				return fail("At(%d) is frame tag=%d idx=%d, want tag=%d idx=%d", j, tag, idx, m[j], j)
			}
			if len(m)%8 == 0 {
				st.Probe("depth_at_segment_boundary")
			}
		} else {
			tag, _, _ := s.Last()
			if tag != -1 {
				return fail("Last() on an empty stack returned a frame (tag %d)", tag)
			}
		}
	}
	s.FreeAll()
	st.Evals++
	st.Steps += int64(nops)
	return nil
}

func (e *Engine) registryRefinement(t *core.Tape, st *core.Stats) (v *core.Violation) {
	initial := []int{4, 8, 16, 31, 32, 33, 128}[t.Choose(7)]
	growBy := []int{1, 2, 3, 7, 32, 33}[t.Choose(6)]
	maxSize := 0
	switch t.Choose(4) {
	case 1:
		maxSize = initial + 1 + t.Choose(10)
	case 2:
		maxSize = initial * 2
	case 3:
		maxSize = initial*3 + 5
	}
	limit := initial
	if maxSize > initial {
		limit = maxSize
	} else {
		maxSize = 0
	}
	var log []string
	overflowed := false
	r := lua.VerifNewRegistry(initial, growBy, maxSize)
	var m []float64 // -1 = nil
	next := 1.0
	fail := func(format string, args ...interface{}) *core.Violation {
		return core.Violationf("registry-refinement", "registry (initial %d, growBy %d, maxSize %d): %s\nops:\n  %s", initial, growBy, maxSize, fmt.Sprintf(format, args...), strings.Join(tailS(log, 40), "\n  "))
	}
	// run one op under recover: a registry overflow must happen iff the model needs more than limit slots
	do := func(need int, desc string, f func()) (ok bool, vv *core.Violation) {
		log = append(log, desc)
		defer func() {
			if rc := recover(); rc != nil {
				if s, isS := rc.(string); isS && s == "verif: registry overflow" {
					if need <= limit {
						vv = fail("registry overflow reported although %d slots are needed and %d are allowed", need, limit)
					}
					overflowed = true
					ok = false
					st.Probe("registry_overflow")
					return
				}
				vv = fail("Go panic %v\n%s", rc, trim(string(debug.Stack()), 1200))
				ok = false
			}
		}()
		f()
		if need > limit {
			vv = fail("%d slots are needed but only %d are allowed, and no overflow was reported", need, limit)
			return false, vv
		}
		if need > initial {
			st.Probe("registry_grown")
		}
		return true, nil
	}
	nops := 20 + t.Choose(200)
	for i := 0; i < nops && !overflowed; i++ {
		top := len(m)
		var vv *core.Violation
		var ok bool
		switch t.Choose(7) {
		case 0, 1: // push
			val := next
			next++
			ok, vv = do(top+1, fmt.Sprintf("Push(%v) at top %d", val, top), func() { r.Push(lua.LNumber(val)) })
			if ok {
				m = append(m, val)
			}
		case 2: // pop
			if top == 0 {
				continue
			}
			log = append(log, "Pop()")
			got := r.Pop()
			want := m[top-1]
			m = m[:top-1]
			if !sameVal(got, want) {
				return fail("Pop returned %v, want %v", got, want)
			}
			ok = true
		case 3: // set at or below top
			i := t.Choose(top + 1)
			val := next
			next++
			ok, vv = do(max(i+1, top), fmt.Sprintf("Set(%d, %v) top %d", i, val, top), func() { r.Set(i, lua.LNumber(val)) })
			if ok {
				if i == top {
					m = append(m, val)
				} else {
					m[i] = val
				}
			}
		case 4: // SetTop
			nt := t.Choose(top + 12)
			if t.Choose(4) == 0 {
				nt = limit - 1 + t.Choose(3)
			}
			ok, vv = do(nt, fmt.Sprintf("SetTop(%d) from %d", nt, top), func() { r.SetTop(nt) })
			if ok {
				for len(m) < nt {
					m = append(m, -1)
				}
				m = m[:nt]
			}
		case 5: // CopyRange(regv, start, -1, n) with regv <= start <= top
			if top == 0 {
				continue
			}
			start := t.Choose(top + 1)
			regv := t.Choose(start + 1)
			n := t.Choose(top - start + 4)
			ok, vv = do(regv+n, fmt.Sprintf("CopyRange(%d, %d, -1, %d) top %d", regv, start, n, top), func() { r.CopyRange(regv, start, -1, n) })
			if ok {
				nm := append([]float64(nil), m[:regv]...)
				for i := 0; i < n; i++ {
					if start+i < top {
						nm = append(nm, m[start+i])
					} else {
						nm = append(nm, -1)
					}
				}
				m = nm
			}
		case 6: // FillNil / Insert
			if t.Bool() {
				regm := t.Choose(top + 1)
				n := t.Choose(6)
				ok, vv = do(regm+n, fmt.Sprintf("FillNil(%d, %d) top %d", regm, n, top), func() { r.FillNil(regm, n) })
				if ok {
					m = m[:regm]
					for i := 0; i < n; i++ {
						m = append(m, -1)
					}
				}
			} else {
				at := t.Choose(top + 1)
				val := next
				next++
				ok, vv = do(top+1, fmt.Sprintf("Insert(%v, %d) top %d", val, at, top), func() { r.Insert(lua.LNumber(val), at) })
				if ok {
					m = append(m, 0)
					copy(m[at+1:], m[at:])
					m[at] = val
				}
			}
		}
		if vv != nil {
			return vv
		}
		if overflowed {
			break
		}
		if r.Top() != len(m) {
			return fail("Top() = %d, model top %d", r.Top(), len(m))
		}
		for i := range m {
			if !sameVal(r.Get(i), m[i]) {
				return fail("slot %d holds %v, model holds %v (top %d)", i, r.Get(i), fmtVal(m[i]), len(m))
			}
		}
	}
	st.Evals++
	st.Steps += int64(nops)
	return nil
}

func max(a, b int) int {
	if a > b {
		return a
	}
	return b
}

func fmtVal(f float64) string {
	if f < 0 {
		return "nil"
	}
	return fmt.Sprint(f)
}

func sameVal(v lua.LValue, want float64) bool {
	if want < 0 {
		return v == lua.LNil
	}
	n, ok := v.(lua.LNumber)
	return ok && float64(n) == want
}

func tailS(s []string, n int) []string {
	if len(s) > n {
		return s[len(s)-n:]
	}
	return s
}

func trim(s string, n int) string {
	if len(s) > n {
		return s[:n] + "..."
	}
	return s
}

// ---------- (b) programs under random Options ----------

type demand struct {
	id   string
	code string // Lua expression list producing the result (inside `return ...`)
	nArg int
	tail bool
}

const demandPrelude = `local emit, errclass, mark, goresume, gothread = emit, errclass, mark, goresume, gothread
local function rec(n) if n <= 0 then return 0 end return 1 + rec(n - 1) end
local mutA, mutB
function mutA(n) if n <= 0 then return 0 end local r = mutB(n - 1) return r + 1 end
function mutB(n) if n <= 0 then return 0 end local r = mutA(n - 1) return r + 1 end
local function tail(n, acc) if n <= 0 then return acc end return tail(n - 1, acc + 1) end
local function va(...) return select('#', ...) end
local function mkt(n) local t = {} for i = 1, n do t[i] = i end return t end
local function sum(...) local s = 0 for i = 1, select('#', ...) do s = s + (select(i, ...)) end return s end
local function corec(n) local co = coroutine.wrap(function() return rec(n) end) return co() end
local function metarec(n) local mt = {} mt.__index = function(t, k) if k <= 0 then return 0 end return 1 + t[k - 1] end local t = setmetatable({}, mt) return t[n] end
local function pchain(n) if n <= 0 then return 0 end local ok, r = pcall(pchain, n - 1) if not ok then error(r, 0) end return r + 1 end
local function cat(n) local t = mkt(n) return #(table.concat(t, ",")) end
local function conest(n) if n <= 0 then return 0 end local co = coroutine.wrap(function() return conest(n - 1) + 1 end) return co() end
local function callee4(a, b, c, d) local x1, x2, x3, x4, x5, x6, x7, x8, x9, x10, x11, x12 = 1, 2, 3, 4, 5, 6, 7, 8, 9, 10, 11, 12 return tostring(a) .. tostring(b) .. tostring(c) .. tostring(d) .. (x1 + x12) end
local function fewargs(n) if n <= 0 then return callee4(1) end local r = fewargs(n - 1) return r end
local function fewargs2(n) if n <= 0 then return callee4() end local r = fewargs2(n - 1) return r .. "" end
local function fewargs3(n) if n <= 0 then local ok, r = pcall(callee4, 1) if not ok then error(r, 0) end return r end local r = fewargs3(n - 1) return r end
local function bigframe(a, b, c) local BIGLOCALS = 0 return tostring(a) .. tostring(b) .. tostring(c) end
local function fewargs4(n) if n <= 0 then local ok, r = pcall(bigframe, 1, 2) if not ok then error(r, 0) end return r end local r = fewargs4(n - 1) return r end
local function fewmeta(n) if n <= 0 then local t = setmetatable({}, {__index = function(t, k, extra) local x1, x2, x3, x4, x5, x6, x7, x8 = 1, 2, 3, 4, 5, 6, 7, 8 return tostring(extra) .. x8 end}) return t.zz end local r = fewmeta(n - 1) return r end
local function counpack(n)
  local co = coroutine.create(function() return select('#', unpack(mkt(n))) end)
  local pok, ok, r = pcall(coroutine.resume, co)
  if not pok then
    if coroutine.status(co) == "suspended" then error(ok, 0) end -- the resumer itself hit a limit before the coroutine started
    error("COBROKEN resume raised the coroutine's error instead of returning false: " .. tostring(ok), 0)
  end
  local st = coroutine.status(co)
  if coroutine.running() ~= nil then error("COBROKEN running() is not the main thread after resume returned", 0) end
  if st ~= "dead" then error("COBROKEN a coroutine that returned or failed is " .. st, 0) end
  if ok then return r end
  error(r, 0)
end
local function cowunpack(n)
  local co = coroutine.wrap(function() return select('#', unpack(mkt(n))) end)
  local ok, r = pcall(co)
  if coroutine.running() ~= nil then error("COBROKEN running() is not the main thread after the wrapped call returned", 0) end
  local ok2, r2 = pcall(co)
  if not ok2 and string.find(tostring(r2), "overflow") then error(r2, 0) end -- the caller itself hit a limit
  if ok2 or not string.find(tostring(r2), "dead") then error("COBROKEN a finished wrapped coroutine is not dead: " .. tostring(r2), 0) end
  if ok then return r end
  error(r, 0)
end
local function cobyte(n)
  local s = string.rep("x", n)
  local co = coroutine.create(function() return select('#', string.byte(s, 1, -1)) end)
  local pok, ok, r = pcall(coroutine.resume, co)
  if not pok then
    if coroutine.status(co) == "suspended" then error(ok, 0) end -- the resumer itself hit a limit before the coroutine started
    error("COBROKEN resume raised the coroutine's error instead of returning false: " .. tostring(ok), 0)
  end
  if coroutine.running() ~= nil or coroutine.status(co) ~= "dead" then error("COBROKEN after a coroutine ended: status " .. coroutine.status(co), 0) end
  if ok then return r end
  error(r, 0)
end
local function manyloc(...) local BIGLOCALS = 0 return select('#', ...) end
local function coargs(n)
  local co = coroutine.create(manyloc)
  local pok, ok, r = pcall(coroutine.resume, co, unpack(mkt(n)))
  if not pok then
    if coroutine.status(co) == "suspended" then error(ok, 0) end -- the resumer itself hit a limit before the coroutine started
    error("COBROKEN resume raised the coroutine's error instead of returning false: " .. tostring(ok), 0)
  end
  if coroutine.running() ~= nil or coroutine.status(co) ~= "dead" then error("COBROKEN after a coroutine ended: status " .. coroutine.status(co), 0) end
  if ok then return r end
  error(r, 0)
end
local function coresults(d, k)
  if d > 0 then local r = coresults(d - 1, k) return r end
  local ran = false
  local co = coroutine.create(function() ran = true return unpack(mkt(k)) end)
  local pok, ok, r = pcall(coroutine.resume, co)
  local st = coroutine.status(co)
  if ran and st ~= "dead" then error("COBROKEN a coroutine whose body has ended is " .. st, 0) end
  if not pok then error(ok, 0) end -- the results did not fit into the resumer's registry
  if not ok then error(r, 0) end
  return tostring(r)
end
local function wrapargs(n)
  local w = coroutine.wrap(function(...) local a, b = ... return select('#', ...) end)
  return w(unpack(mkt(n)))
end
local function wrapargs1(n)
  local w = coroutine.wrap(function(p, ...) return select('#', ...) + (p and 1 or 0) end)
  return w(unpack(mkt(n)))
end
local function wrapsweep(from)
  -- every argument count in a window, tried inside a fresh coroutine (whose registry starts at its initial size):
  -- one of the counts ends exactly where the allocated registry ends
  local sweep = coroutine.wrap(function()
    local good = 0
    local function fwd(...) return coroutine.wrap(function(...) return select('#', ...) end)(...) end
    local function fwd1(pad, ...) return coroutine.wrap(function(...) return select('#', ...) end)(...) end
    for n = from, from + 110 do
      local w = coroutine.wrap(function(...) return select('#', ...) end)
      if w(unpack(mkt(n))) == n then good = good + 1 end
      local w1 = coroutine.wrap(function(p, ...) return select('#', ...) end)
      if n == 0 or w1(unpack(mkt(n))) == n - 1 then good = good + 1 end
      -- the arguments forwarded as ... (the vararg instruction reserves exactly what it copies)
      if fwd(unpack(mkt(n))) == n then good = good + 1 end
      if fwd1(0, unpack(mkt(n))) == n then good = good + 1 end
    end
    return good
  end)
  return sweep()
end
local function threegen()
  local C
  local A = coroutine.create(function()
    local B = coroutine.create(function()
      C = coroutine.create(function(a) local b = coroutine.yield(a + 1) local c = coroutine.yield(b + 1) return c + 1 end)
      coroutine.resume(C, 1)
    end)
    coroutine.resume(B)
    coroutine.yield()
  end)
  coroutine.resume(A)
  local _, r1 = coroutine.resume(C, 10)
  coroutine.resume(A)
  local ok, r2 = coroutine.resume(C, 20)
  return tostring(r1) .. "." .. tostring(ok) .. "." .. tostring(r2) .. "." .. coroutine.status(C)
end
local function godead(d, k)
  -- the Go API on a coroutine that has ended, after later coroutines have taken call-frame segments from the pool
  if d > 0 then local r = godead(d - 1, k) return r end
  local function body(a) local b = coroutine.yield(a + 1) return b * 2 end
  local co = gothread() -- LState.NewThread: the Go API starts such a thread with the function it is given
  local s1, v1 = goresume(co, body, 5)
  local s2, v2 = goresume(co, body, 7)
  if s1 ~= "yield" or s2 ~= "ok" then error(tostring(v1) .. tostring(v2), 0) end
  local later = {}
  for i = 1, 3 do
    later[i] = coroutine.create(function(n) coroutine.yield(rec(n)) end)
    local ok, e = coroutine.resume(later[i], k)
    if not ok then error(e, 0) end
  end
  local s3 = goresume(co, body, 1)
  local s4 = goresume(co, body, 1)
  return s1 .. tostring(v1) .. s2 .. tostring(v2) .. s3 .. s4 .. coroutine.status(co) -- (what became of the later ones depends on the limits)
end
-- Edge sweeps. A probe function is called with n padding arguments, for every n in a window around the largest
-- padding with which the probe still starts: for one of them the probe's frame ends exactly where the registry
-- ends, so what the probe does next (a hand-over between threads, an error) meets the limit half-way. The sweep
-- contains those limit errors itself and judges what happens afterwards; its result is the same under every
-- configuration.
local NOPAD = {}
local function edge(trial)
  local lo, hi = 0, 1
  -- (registries that take more than 6000 padding values are left alone: growing one in steps of 1 is quadratic)
  while trial(hi) do lo = hi hi = hi * 2 if hi > 6000 then return "fine" end end
  while hi - lo > 1 do
    local mid = (lo + hi - (lo + hi) % 2) / 2
    if trial(mid) then lo = mid else hi = mid end
  end
  local from = lo - 24
  if from < 0 then from = 0 end
  for n = from, lo + 2 do trial(n) end
  return "fine"
end
local function broken(what, n, ...)
  local parts = {}
  for i = 1, select('#', ...) do parts[i] = tostring((select(i, ...))) end
  error("COBROKEN " .. what .. " (padding " .. n .. "): " .. table.concat(parts, ", "), 0)
end
local function islimit(m) return type(m) == "string" and string.find(m, "overflow", 1, true) ~= nil end
-- 1: a yield whose values do not fit into the resumer fails like every hand-over that does not fit: the coroutine is
-- dead and the resumer has (false, overflow) or, if not even that fits, the overflow as an error. A yield that fits
-- suspends the coroutine, later resumes deliver their values to it, and its variables are intact.
local function edge_yield()
  return edge(function(n)
    local started, entered, bump, got, rok, rmsg = false, false, nil, {}, nil, nil
    local co = coroutine.create(function()
      entered = true
      local v = 0
      bump = function() v = v + 1 return v end
      local x, y = coroutine.yield("v1", "v2", "v3")
      v = v + 10
      got[1] = tostring(x) .. "/" .. tostring(y) .. "/" .. tostring(bump())
      local z = coroutine.yield("v4")
      got[2] = tostring(z)
      return "end"
    end)
    local function probe(...)
      local a, b, c = 1, 2, 3
      started = true
      rok, rmsg = coroutine.resume(co)
    end
    local ok, msg = pcall(function() probe(unpack(NOPAD, 1, n)) end)
    if not started then return false end
    if not ok and not islimit(msg) then broken("resume at the edge failed with something else than an overflow", n, msg) end
    if not entered then return true end -- the resume itself did not fit
    local st = coroutine.status(co)
    if not ok or rok == false then
      -- the yield (or the set-up of the coroutine) met the limit: a failed hand-over ends the coroutine
      if rok == false and not islimit(rmsg) then broken("resume returned false with", n, rmsg) end
      if st ~= "dead" then broken("after a hand-over that did not fit the coroutine is", n, st, ok, msg, rok, rmsg) end
      local r = {coroutine.resume(co, "x")}
      if r[1] ~= false or got[1] ~= nil then broken("a coroutine whose yield failed was resumed", n, r[1], r[2], got[1]) end
      return true
    end
    if st ~= "suspended" or rmsg ~= "v1" then broken("after the first resume", n, st, rok, rmsg) end
    local r = {coroutine.resume(co, "r1", "r2")}
    if not (r[1] == true and r[2] == "v4" and got[1] == "r1/r2/11") then broken("second resume", n, r[1], r[2], got[1]) end
    r = {coroutine.resume(co, "s1")}
    if not (r[1] == true and r[2] == "end" and got[2] == "s1" and coroutine.status(co) == "dead") then broken("last resume", n, r[1], r[2], got[2], coroutine.status(co)) end
    return true
  end)
end
-- 2: a coroutine that fails while (false, message) does not fit into the resumer: it is dead all the same
local function edge_error()
  return edge(function(n)
    local started, steps = false, 0
    local co = coroutine.create(function() steps = steps + 1 error("boom", 0) steps = steps + 100 end)
    local function probe(...)
      local a, b, c = 1, 2, 3
      started = true
      coroutine.resume(co)
    end
    local ok, msg = pcall(function() probe(unpack(NOPAD, 1, n)) end)
    if not started then return false end
    if not ok and not islimit(msg) then broken("resume of a failing coroutine at the edge", n, msg) end
    if steps == 0 then return true end
    if coroutine.status(co) ~= "dead" then broken("a coroutine whose body raised an error is", n, coroutine.status(co)) end
    local r = {coroutine.resume(co)}
    if r[1] ~= false or steps ~= 1 then broken("a failed coroutine was resumed again", n, r[1], r[2], steps) end
    return true
  end)
end
-- 3: an error raised inside pcall while the registry is full reaches that pcall, and the code behind it runs
local function edge_pcall()
  return edge(function(n)
    local started, after, iok, ierr = false, false, nil, nil
    local function probe(...)
      local a, b, c = 1, 2, 3
      started = true
      iok, ierr = pcall(error)
      after = true
    end
    local ok, msg = pcall(function() probe(unpack(NOPAD, 1, n)) end)
    if not started then return false end
    if not ok then
      if not islimit(msg) then broken("outer pcall got", n, msg) end
      return true
    end
    if not (after and iok == false and type(ierr) == "string" and (islimit(ierr) or string.find(ierr, "bad argument", 1, true))) then broken("inner pcall(error)", n, after, iok, ierr) end
    return true
  end)
end
-- 4: a run-time error raised by the VM in a frame that ends at the edge leaves captured locals alone
local function edge_vmerror()
  return edge(function(n)
    local started, get = false, nil
    local function probe(...)
      local f
      get = function() return f() end
      local a, b
      local c = 42
      f = function() return c end
      started = true
      f = f + get
    end
    local ok, msg = pcall(function() probe(unpack(NOPAD, 1, n)) end)
    if not started then return false end
    if ok then broken("arithmetic on a function succeeded", n) end
    if islimit(msg) then return true end
    local v = get()
    if v ~= 42 then broken("a captured local changed when its frame failed", n, v, msg) end
    return true
  end)
end
-- 5: after several caught overflows at a full registry, resume of a fresh coroutine with about as many values as fit
local function edge_coargs()
  if not pcall(unpack, NOPAD, 1, 6000) then
    for i = 1, 150 do pcall(unpack, NOPAD, 1, 6000) end -- (each one leaves the registry one slot larger)
  end
  return edge(function(n)
    local co = coroutine.create(function(...) return select('#', ...) end)
    local r = {pcall(coroutine.resume, co, unpack(NOPAD, 1, n))}
    if r[1] == false then
      if not islimit(r[2]) then broken("resume with many values", n, r[2]) end
      return false
    end
    if r[2] == true then
      if r[3] ~= n then broken("resume with many values returned", n, r[3]) end
      return true
    end
    if not (r[2] == false and #r == 3 and islimit(r[3])) then broken("resume with many values: results", n, r[2], r[3], r[4], #r) end
    return false
  end)
end
local function xpover(n)
  local t = mkt(n)
  local ok, e = xpcall(function() return select('#', unpack(t)) end, function(m) return "H" end)
  if ok then return e end
  error("XPCAUGHT overflow was delivered to the nearest xpcall", 0)
end
local function run(id, f, ...)
  mark(id)
  local ok, r = pcall(f, ...)
  if coroutine.running() ~= nil then
    emit(id, false, errclass("COBROKEN after the demand the main thread is not the running thread"))
  elseif ok then emit(id, true, r) else emit(id, false, errclass(r)) end
end
`

func (e *Engine) demandProgram(t *core.Tape) (string, int) {
	var sb strings.Builder
	var bl strings.Builder
	nbig := []int{20, 60, 100, 140}[t.Choose(4)]
	for i := 0; i < nbig; i++ {
		if i > 0 {
			bl.WriteString(", ")
		}
		fmt.Fprintf(&bl, "w%d", i)
	}
	sb.WriteString(strings.Replace(demandPrelude, "BIGLOCALS", bl.String(), -1))
	depths := []int{1, 5, 7, 8, 9, 15, 16, 17, 30, 60, 63, 64, 65, 100, 127, 128, 129, 200, 255, 256, 257, 400}
	argc := []int{1, 2, 50, 100, 120, 127, 128, 129, 200, 250, 255, 256, 257, 500, 1000, 2000}
	n := 3 + t.Choose(6)
	maxArg := 0
	for i := 0; i < n; i++ {
		id := fmt.Sprintf("d%d", i)
		switch t.Choose(29) {
		case 28:
			fmt.Fprintf(&sb, "run(%q, %s)\n", id+"sw", []string{"edge_yield", "edge_error", "edge_pcall", "edge_vmerror", "edge_coargs"}[t.Choose(5)])
		case 27:
			fmt.Fprintf(&sb, "run(%q, godead, %d, %d)\n", id, t.Choose(20), t.Choose(12))
		case 26:
			fmt.Fprintf(&sb, "run(%q, wrapsweep, %d)\n", id, t.Choose(40))
		case 24:
			fmt.Fprintf(&sb, "run(%q, wrapargs, %d)\n", id, t.Choose(140))
		case 25:
			fmt.Fprintf(&sb, "run(%q, wrapargs1, %d)\n", id, t.Choose(140))
		case 23:
			a := argc[t.Choose(len(argc))]
			maxArg = max(maxArg, a)
			fmt.Fprintf(&sb, "run(%q, coresults, %d, %d)\n", id, t.Choose(70), a)
		case 22:
			a := argc[t.Choose(len(argc))]
			maxArg = max(maxArg, a)
			fmt.Fprintf(&sb, "run(%q, coargs, %d)\n", id, a)
		case 16:
			fmt.Fprintf(&sb, "run(%q, fewargs3, %d)\n", id, t.Choose(70))
		case 17:
			fmt.Fprintf(&sb, "run(%q, fewargs4, %d)\n", id, t.Choose(70))
		case 18:
			fmt.Fprintf(&sb, "run(%q, fewmeta, %d)\n", id, t.Choose(70))
		case 19:
			a := argc[t.Choose(len(argc))]
			maxArg = max(maxArg, a)
			fmt.Fprintf(&sb, "run(%q, counpack, %d)\n", id, a)
		case 20:
			a := argc[t.Choose(len(argc))]
			maxArg = max(maxArg, a)
			fmt.Fprintf(&sb, "run(%q, cowunpack, %d)\n", id, a)
		case 21:
			a := argc[t.Choose(len(argc))]
			maxArg = max(maxArg, a)
			fmt.Fprintf(&sb, "run(%q, cobyte, %d)\n", id, a)
		case 15:
			a := argc[t.Choose(len(argc))]
			maxArg = max(maxArg, a)
			fmt.Fprintf(&sb, "run(%q, xpover, %d)\n", id+"xp", a)
		case 12:
			fmt.Fprintf(&sb, "run(%q, fewargs, %d)\n", id, t.Choose(70))
		case 13:
			fmt.Fprintf(&sb, "run(%q, fewargs2, %d)\n", id, t.Choose(70))
		case 14:
			fmt.Fprintf(&sb, "run(%q, threegen)\n", id)
		case 0, 1:
			fmt.Fprintf(&sb, "run(%q, rec, %d)\n", id, depths[t.Choose(len(depths))])
		case 2:
			fmt.Fprintf(&sb, "run(%q, mutA, %d)\n", id, depths[t.Choose(len(depths))])
		case 3:
			fmt.Fprintf(&sb, "run(%q, tail, %d, 0)\n", id+"tail", 1000+t.Choose(30000))
		case 4:
			a := argc[t.Choose(len(argc))]
			maxArg = max(maxArg, a)
			fmt.Fprintf(&sb, "run(%q, function() return va(unpack(mkt(%d))) end)\n", id, a)
		case 5:
			a := argc[t.Choose(len(argc))]
			maxArg = max(maxArg, a)
			fmt.Fprintf(&sb, "run(%q, function() return sum(unpack(mkt(%d))) end)\n", id, a)
		case 6:
			fmt.Fprintf(&sb, "run(%q, corec, %d)\n", id, depths[t.Choose(len(depths))])
		case 7:
			fmt.Fprintf(&sb, "run(%q, metarec, %d)\n", id, depths[t.Choose(14)])
		case 8:
			fmt.Fprintf(&sb, "run(%q, pchain, %d)\n", id, depths[t.Choose(14)])
		case 9:
			a := argc[t.Choose(len(argc))]
			maxArg = max(maxArg, a)
			fmt.Fprintf(&sb, "run(%q, function() local t = {unpack(mkt(%d))} return #t end)\n", id, a)
		case 10:
			fmt.Fprintf(&sb, "run(%q, conest, %d)\n", id, depths[t.Choose(10)])
		default:
			a := argc[t.Choose(len(argc))]
			maxArg = max(maxArg, a)
			fmt.Fprintf(&sb, "run(%q, function() return select('#', unpack(mkt(%d))) end)\n", id, a)
		}
	}
	// the same state keeps working: a small demand at the end
	sb.WriteString("run(\"last\", rec, 3)\nrun(\"lasttail\", tail, 500, 0)\nemit(\"end\")\n")
	return sb.String(), maxArg
}

type cfgT struct {
	o       lua.Options
	withCtx bool
}

func (c cfgT) String() string {
	return fmt.Sprintf("{CallStackSize:%d MinimizeStackMemory:%v RegistrySize:%d RegistryMaxSize:%d RegistryGrowStep:%d context:%v}",
		c.o.CallStackSize, c.o.MinimizeStackMemory, c.o.RegistrySize, c.o.RegistryMaxSize, c.o.RegistryGrowStep, c.withCtx)
}

func drawCfg(t *core.Tape) cfgT {
	css := []int{5, 7, 8, 9, 12, 15, 16, 17, 20, 24, 31, 32, 33, 40, 63, 64, 65, 66, 100, 128, 255, 256, 257, 1024}[t.Choose(24)]
	rs := []int{128, 129, 130, 135, 140, 255, 256, 257, 512, 1024, 5120}[t.Choose(11)]
	var rmax int
	switch t.Choose(5) {
	case 0:
		rmax = 0
	case 1:
		rmax = rs
	case 2:
		rmax = rs + 1
	case 3:
		rmax = rs * 2
	case 4:
		rmax = 64 * 1024
	}
	gs := []int{1, 2, 3, 7, 32, 33, 1000}[t.Choose(7)]
	return cfgT{lua.Options{CallStackSize: css, MinimizeStackMemory: t.Bool(), RegistrySize: rs, RegistryMaxSize: rmax, RegistryGrowStep: gs}, t.Bool()}
}

type section struct {
	id     string
	frames int
	top    int
}

type progRun struct {
	trace    []string
	sections []section
	out      hostapi.Outcome
	viol     []string
	runaway  bool
	steps    int64
}

func runUnder(proto *lua.FunctionProto, c cfgT, maxSteps int64) *progRun {
	h := hostapi.NewHost(hostapi.Options{LuaOptions: c.o, WithContext: c.withCtx, MaxSteps: maxSteps, TrackLimits: true})
	pr := &progRun{}
	L := h.L
	L.SetGlobal("errclass", L.NewFunction(func(L *lua.LState) int {
		v := L.Get(1)
		if s, ok := v.(lua.LString); ok {
			str := string(s)
			switch {
			case strings.Contains(str, "COBROKEN"):
				L.Push(lua.LString("OTHER." + sanitize(str)))
			case strings.Contains(str, "XPCAUGHT"):
				L.Push(lua.LString("LIMITX"))
			case strings.Contains(str, "overflow"):
				L.Push(lua.LString("LIMIT"))
			case strings.Contains(str, "runtime error") || strings.Contains(str, "invalid memory") || strings.Contains(str, "index out of range"):
				L.Push(lua.LString("GOPANIC." + sanitize(str)))
			default:
				L.Push(lua.LString("OTHER." + sanitize(str)))
			}
			return 1
		}
		L.Push(lua.LString("NONSTRING"))
		return 1
	}))
	// goresume(co, f, ...): LState.Resume through the Go API; returns "yield"/"ok" and the values, or "error"
	L.SetGlobal("goresume", L.NewFunction(func(L *lua.LState) int {
		th, _ := L.Get(1).(*lua.LState)
		fn, _ := L.Get(2).(*lua.LFunction)
		if th == nil || fn == nil {
			L.RaiseError("goresume: thread and function expected")
		}
		var args []lua.LValue
		for i := 3; i <= L.GetTop(); i++ {
			args = append(args, L.Get(i))
		}
		state, err, vals := L.Resume(th, fn, args...)
		switch state {
		case lua.ResumeError:
			L.Push(lua.LString("error"))
			L.Push(lua.LString(fmt.Sprint(err)))
			return 2
		case lua.ResumeYield:
			L.Push(lua.LString("yield"))
		default:
			L.Push(lua.LString("ok"))
		}
		for _, v := range vals {
			L.Push(v)
		}
		return 1 + len(vals)
	}))
	L.SetGlobal("gothread", L.NewFunction(func(L *lua.LState) int {
		th, _ := L.NewThread()
		L.Push(th)
		return 1
	}))
	L.SetGlobal("mark", L.NewFunction(func(L *lua.LState) int {
		if n := len(pr.sections); n > 0 {
			pr.sections[n-1].frames = h.MaxThreadDepth
			pr.sections[n-1].top = h.MaxTop
		}
		h.MaxThreadDepth, h.MaxTop = 0, 0
		pr.sections = append(pr.sections, section{id: L.ToString(1)})
		return 0
	}))
	pr.out = h.RunProto(proto)
	if n := len(pr.sections); n > 0 {
		pr.sections[n-1].frames = h.MaxThreadDepth
		pr.sections[n-1].top = h.MaxTop
	}
	pr.trace = h.Trace
	pr.viol = h.Violations
	pr.runaway = h.Runaway
	pr.steps = h.Steps
	// the Go API with argument lists around the registry's size: a protected CallByParam returns the result or a limit
	// error - it never panics - and the state keeps working
	if !h.Runaway && pr.out.Escaped == "" {
		lim := c.o.RegistrySize
		if c.o.RegistryMaxSize > lim {
			lim = c.o.RegistryMaxSize
		}
		if lim <= 6000 {
			sel := L.GetGlobal("select")
			top := L.GetTop()
			for _, n := range []int{lim - 4, lim - 2, lim - 1, lim, lim + 1, 2 * lim, 3, lim - 3} {
				if n < 0 {
					continue
				}
				args := make([]lua.LValue, n+1)
				args[0] = lua.LString("#")
				for i := 1; i <= n; i++ {
					args[i] = lua.LNil
				}
				var err error
				var panicked interface{}
				func() {
					defer func() { panicked = recover() }()
					err = L.CallByParam(lua.P{Fn: sel, NRet: 1, Protect: true}, args...)
				}()
				switch {
				case panicked != nil:
					pr.viol = append(pr.viol, fmt.Sprintf("a protected CallByParam with %d arguments left the Go API as a panic: %v", n+1, panicked))
				case err != nil && !strings.Contains(err.Error(), "overflow"):
					pr.viol = append(pr.viol, fmt.Sprintf("a protected CallByParam with %d arguments failed with something else than a limit error: %v", n+1, err))
				case err == nil:
					if v, ok := L.Get(-1).(lua.LNumber); !ok || int(v) != n {
						pr.viol = append(pr.viol, fmt.Sprintf("a protected CallByParam of select('#', ...) with %d values returned %v", n, L.Get(-1)))
					}
					L.Pop(1)
				}
				if L.GetTop() != top {
					pr.viol = append(pr.viol, fmt.Sprintf("after a protected CallByParam with %d arguments (error: %v) the stack height is %d, it was %d", n+1, err, L.GetTop(), top))
					L.SetTop(top)
				}
				if len(pr.viol) > 0 {
					break
				}
			}
		}
	}
	return pr
}

func sanitize(s string) string {
	var sb strings.Builder
	for i := 0; i < len(s) && sb.Len() < 60; i++ {
		c := s[i]
		if (c >= 'a' && c <= 'z') || (c >= 'A' && c <= 'Z') || (c >= '0' && c <= '9') {
			sb.WriteByte(c)
		} else {
			sb.WriteByte('_')
		}
	}
	return sb.String()
}

func (e *Engine) Run(t *core.Tape, cfg *core.Config, st *core.Stats) *core.Violation {
	// (a) component refinement
	if v := e.stackRefinement(t, st); v != nil {
		return v
	}
	if v := e.registryRefinement(t, st); v != nil {
		return v
	}
	st.Distinct(uint64(core.NewHash().Int(t.Pos()).Int(int(t.Seed))))

	// (b) a program under random Options
	var src string
	maxArg := 0
	var prog *ir.Program
	isDemand := t.Choose(4) != 0
	if isDemand {
		src, maxArg = e.demandProgram(t)
	} else {
		prof := ir.ProfileFor("containment")
		prof.Disabled = cfg.Disabled
		prog = ir.Generate(t, prof)
		src = ir.Render(prog, ir.DrawLayout(t)).Source
	}
	proto, err := hostapi.Compile(src)
	if err != nil {
		return core.Violationf("rejects-valid", "program does not compile: %v\n%s", err, src)
	}
	ref := cfgT{lua.Options{CallStackSize: 2048, RegistrySize: 2048, RegistryMaxSize: 1024 * 256, RegistryGrowStep: 4096}, false}
	const maxSteps = 3_000_000
	if os.Getenv("VERIF_DEBUG") != "" {
		fmt.Fprintf(os.Stderr, "--- limitswarm program ---\n%s\n--- reference run ---\n", src)
	}
	r0 := runUnder(proto, ref, maxSteps)
	st.Evals++
	st.Steps += r0.steps
	if r0.runaway {
		st.Discarded++
		return nil
	}
	desc := func() string { return "--- program ---\n" + src }
	if r0.out.Escaped != "" {
		return core.Violationf("escape", "reference configuration: Go panic left the entry point: %s\n%s", r0.out.Escaped, desc())
	}
	if isDemand {
		for _, l := range r0.trace {
			if strings.Contains(l, ",false,") {
				return core.Violationf("harness", "a demand fails under the reference configuration %v: %s\n%s", ref, l, desc())
			}
		}
	} else {
		free := model.Run(prog, model.Options{MaxSteps: 400000})
		if !free.Runaway && model.HashTrace(r0.trace, r0.out.TopError) != free.TraceHash {
			return core.Violationf("trace-mismatch", "reference configuration differs from the reference model: %s (top-level: implementation %q, model %q)\nimplementation:\n  %s\nmodel:\n  %s\n%s", firstDiff(r0.trace, free.Trace), r0.out.TopError, free.TopError, strings.Join(tailS(r0.trace, 40), "\n  "), strings.Join(tailS(free.Trace, 40), "\n  "), desc())
		}
	}
	F, R := 0, 0
	for _, s := range r0.sections {
		F, R = max(F, s.frames), max(R, s.top)
	}
	if !isDemand {
		// whole-program demand (no sections)
		h := hostapi.NewHost(hostapi.Options{LuaOptions: ref.o, TrackLimits: true, MaxSteps: maxSteps})
		h.RunProto(proto)
		F, R = h.MaxThreadDepth, h.MaxTop
	}

	ncfg := 8
	if cfg.Thorough {
		ncfg = 24
	}
	for i := 0; i < ncfg; i++ {
		c := drawCfg(t)
		if len(cfg.Aux) >= 1 && int(cfg.Aux[0]) != i {
			continue
		}
		if os.Getenv("VERIF_DEBUG") != "" {
			fmt.Fprintf(os.Stderr, "--- run under %s ---\n", c)
		}
		r := runUnder(proto, c, maxSteps)
		st.D(model.HashTrace(r.trace, r.out.TopError))
		st.Evals++
		st.Steps += r.steps
		st.Distinct(uint64(core.NewHash().Str(src).Str(c.String())))
		where := fmt.Sprintf("Options %v (reference demand: %d frames, registry top %d, largest argument list %d)", c, F, R, maxArg)
		mk := func(class, format string, args ...interface{}) *core.Violation {
			v := core.Violationf(class, "%s: %s\n%s", where, fmt.Sprintf(format, args...), desc())
			v.Aux = []int64{int64(i)}
			return v
		}
		if r.out.Escaped != "" {
			return mk("escape", "Go panic left the entry point: %s", r.out.Escaped)
		}
		if r.runaway {
			return mk("runaway", "the run did not finish within %d steps (reference: %d)", maxSteps, r0.steps)
		}
		for _, vv := range r.viol {
			return mk("structure-not-restored", "%s", vv)
		}
		regLimit := c.o.RegistrySize
		if c.o.RegistryMaxSize > regLimit {
			regLimit = c.o.RegistryMaxSize
		}
		within := F+8 <= c.o.CallStackSize && R+512+2*maxArg <= regLimit
		if within {
			st.Probe("config_within_limits")
			if !sameTrace(r.trace, r0.trace) || r.out.TopError != r0.out.TopError {
				return mk("options-change-behaviour", "the program stays within the limits but behaves differently: %s\ngot:\n  %s\nreference:\n  %s", firstDiff(r.trace, r0.trace), strings.Join(tailS(r.trace, 30), "\n  "), strings.Join(tailS(r0.trace, 30), "\n  "))
			}
			continue
		}
		st.Probe("config_over_a_limit")
		if !isDemand {
			continue // contained (no escape, no structural damage) is all that can be judged
		}
		// every demand: reference result or a catchable limit error; the state keeps working
		if len(r.trace) != len(r0.trace) || r.out.TopError != "" {
			return mk("limit-not-contained", "the program did not run to its end: %d emits (reference %d), top-level error %q\ngot:\n  %s", len(r.trace), len(r0.trace), r.out.RawError, strings.Join(tailS(r.trace, 30), "\n  "))
		}
		for j := range r.trace {
			if r.trace[j] == r0.trace[j] {
				// enforcement: a demand that certainly exceeds a configured limit must not succeed
				if j < len(r0.sections) && !strings.HasSuffix(r0.sections[j].id, "sw") { // (edge sweeps contain their limit errors themselves)
					sec := r0.sections[j]
					capFrames := c.o.CallStackSize
					if c.o.MinimizeStackMemory {
						capFrames = (capFrames + 7) / 8 * 8 // the auto-growing stack rounds up to a whole segment
					}
					if sec.frames > capFrames+2 {
						return mk("limit-not-enforced", "demand %s needs %d call frames in one thread (measured under the reference configuration) but succeeded under CallStackSize %d", sec.id, sec.frames, c.o.CallStackSize)
					}
					// (an error raised while the registry is exactly full makes room for its message by growing the
					// registry one slot past the limit; an edge sweep does that dozens of times)
					afterSweep := false
					for _, s := range r0.sections[:j] {
						afterSweep = afterSweep || strings.HasSuffix(s.id, "sw")
					}
					if sec.top > regLimit+8 && !afterSweep {
						return mk("limit-not-enforced", "demand %s needs a registry top of %d in one thread (measured under the reference configuration) but succeeded under a registry limit of %d", sec.id, sec.top, regLimit)
					}
					if sec.frames > capFrames-8 || sec.top > regLimit-600 {
						st.Probe("demand_just_below_a_limit")
					}
				}
				continue
			}
			id := ""
			if j < len(r0.sections) {
				id = r0.sections[j].id
			}
			secWithin := false
			if j < len(r0.sections) {
				sec := r0.sections[j]
				secWithin = sec.frames+8 <= c.o.CallStackSize && sec.top+512+2*maxArg <= regLimit
			}
			if strings.HasSuffix(id, "xp") && strings.Contains(r.trace[j], ",false,'LIMIT'") && !strings.Contains(r.trace[j], "'LIMITX'") {
				return mk("limit-error-skipped-xpcall", "demand %s: the overflow inside the xpcall body was not delivered to that xpcall but to the enclosing pcall: %s", id, r.trace[j])
			}
			if strings.Contains(r.trace[j], ",false,'LIMIT") {
				st.Fault("limit_error")
				if secWithin {
					return mk("state-unusable-after-limit", "demand %s stays within the limits on its own (reference: %d frames, registry top %d) but fails after earlier limit errors: %s", id, r0.sections[j].frames, r0.sections[j].top, r.trace[j])
				}
				if strings.HasSuffix(id, "tail") && R+512 <= regLimit {
					return mk("tail-call-consumes-stack", "tail recursion %s hit a limit: %s", id, r.trace[j])
				}
				continue
			}
			return mk("limit-not-an-ordinary-error", "demand %s: got %s, want the reference result %s or a catchable *overflow* error", id, r.trace[j], r0.trace[j])
		}
	}
	if st.WantSample() {
		st.Sample(map[string]interface{}{"program": src, "reference_frames": F, "reference_registry_top": R})
	}
	return nil
}

func sameTrace(a, b []string) bool {
	if len(a) != len(b) {
		return false
	}
	for i := range a {
		if a[i] != b[i] {
			return false
		}
	}
	return true
}

func firstDiff(a, b []string) string {
	for i := 0; i < len(a) && i < len(b); i++ {
		if a[i] != b[i] {
			return fmt.Sprintf("emit #%d is %q, reference %q", i+1, a[i], b[i])
		}
	}
	return fmt.Sprintf("%d emits, reference %d", len(a), len(b))
}
