// Package streamload is the C08 engine: the byte sequence reaches the front end
// through an io.Reader, and the simulator is that reader.
package streamload

import (
	"crypto/sha256"
	"encoding/hex"
	"encoding/json"
	"errors"
	"fmt"
	"io"
	"os"
	"path/filepath"
	"runtime/debug"
	"sort"
	"strings"
	"sync"

	lua "github.com/yuin/gopher-lua"

	"luasim/core"
	"luasim/ir"
	"luasim/luatok"
)

type Engine struct{}

func New() core.Engine { return &Engine{} }

func (e *Engine) Name() string         { return "streamload" }
func (e *Engine) Properties() []string { return []string{"C08"} }
func (e *Engine) Level() string        { return "exploration" }
func (e *Engine) Rule() string {
	return "one case = (byte sequence, delivery): the sequence is a generated SimLua program, a corpus file from /repo/_glua-tests or /repo/_lua5.1-tests, a lexical snippet, or random bytes, optionally re-rendered in another layout, truncated at an offset, or with one byte flipped/deleted/duplicated; each sequence is loaded through strings.NewReader and through 3-5 fault-injecting readers (chunk sizes, zero-length reads, EOF placement). distinct = distinct (sha of bytes, delivery pattern); non-trivial = the delivery differs from one single full read or the bytes were mutated/re-rendered"
}
func (e *Engine) RealComponents() []string {
	return []string{"parse.Scanner/Lexer", "yacc parser", "compiler (Compile)", "LState.Load/LoadString", "bufio.Reader inside parse.Parse"}
}
func (e *Engine) StubComponents() []string {
	return []string{"io.Reader handed to Load (SimReader: tape-driven chunking, zero reads, EOF placement)"}
}
func (e *Engine) Assumptions() []string {
	return []string{"reader errors other than EOF are not injected (the property speaks of byte sequences)",
		"the clause 'every text the grammar accepts is accepted' is checked on generated programs, the pinned corpus and their re-renderings only"}
}

// ---- corpus ----

type corpusEntry struct {
	Name  string `json:"name"`
	Sha   string `json:"sha256"`
	Loads bool   `json:"loads"`
}

type corpusFile struct {
	name   string
	data   string
	pinned *corpusEntry // nil if unknown or hash mismatch
}

var corpusOnce sync.Once
var corpus []corpusFile

func repoDir() string {
	if d := os.Getenv("VERIF_REPO"); d != "" {
		return d
	}
	return "/repo"
}

func loadCorpus() {
	pins := map[string]*corpusEntry{}
	if b, err := os.ReadFile(filepath.Join(core.VerifDir, "corpus.json")); err == nil {
		var es []corpusEntry
		if json.Unmarshal(b, &es) == nil {
			for i := range es {
				pins[es[i].Name] = &es[i]
			}
		}
	}
	for _, dir := range []string{"_glua-tests", "_lua5.1-tests"} {
		ents, err := os.ReadDir(filepath.Join(repoDir(), dir))
		if err != nil {
			continue
		}
		var names []string
		for _, e := range ents {
			if strings.HasSuffix(e.Name(), ".lua") {
				names = append(names, e.Name())
			}
		}
		sort.Strings(names)
		for _, n := range names {
			b, err := os.ReadFile(filepath.Join(repoDir(), dir, n))
			if err != nil || len(b) > 24*1024 || len(b) == 0 || b[0] == '#' {
				continue
			}
			cf := corpusFile{name: dir + "/" + n, data: string(b)}
			sum := sha256.Sum256(b)
			if p, ok := pins[cf.name]; ok && p.Sha == hex.EncodeToString(sum[:]) {
				cf.pinned = p
			}
			corpus = append(corpus, cf)
		}
	}
}

// Corpus exposes the corpus (used by `luasim -gen-corpus`).
func Corpus() []struct{ Name, Data string } {
	corpusOnce.Do(loadCorpus)
	var out []struct{ Name, Data string }
	for _, c := range corpus {
		out = append(out, struct{ Name, Data string }{c.name, c.data})
	}
	return out
}

var snippets = []string{
	// several compile errors in one function: which one is reported is a function of the bytes
	"goto a goto b goto c",
	"do goto x end goto y do do goto z end end local function f() goto p goto q end",
	"break break", "::l:: ::l:: ::m:: ::m::", "local function f() return ... end local function g() return ... end",
	"local a = [[long\nstring]] local b = [==[ ]] ]=] ]==] return a..b",
	"local s = \"esc \\n \\t \\\\ \\\" \\' \\065 \\10 \\\n continued\" return s",
	"local x = 0x1F + 1e3 + .5 + 3. + 0xA -- numbers\nreturn x",
	"--[[ block\ncomment ]] return 1 --[==[ another ]==]",
	"goto done; do local z = 1 end ::done:: return",
	"local t = {1,2;3,[4]=5,a=6,} return #t, t.a",
	"for i=1,3 do if i==2 then break end end while false do end repeat local q = 1 until q",
	"local function f(...) return select('#', ...) end return f(1,2,3)",
	"return ('x'):rep(3), #'abc', -2^2, not nil == true, 1 .. 2",
	"local a <const> = 1",
	"return 1 +",
	"x = = 1",
	"local s = 'unterminated",
	"local s = [[unterminated long",
	"--[[ unterminated comment",
	"return 0x",
	"return 1e",
	"return '\\300'",
	"return '\\xyz'",
	"f(\n)",
	"a.b:c{1}'s'[[t]]",
	"break",
	"goto nowhere",
	"::l:: ::l::",
	"local function f() return function() return function() return 1 end end end",
	"return ...",
	"for i = 1 do end",
	"if x then elseif y then else end",
	"return {[1]=1, [1]=2, ...}",
	"x = ~1",
	"return 3 == 3 ~= false",
	"\xef\xbb\xbfreturn 1",
	"return \"\\z\"",
	"return 1;;",
	";",
	"",
	"   ",
	"\r\n\r\n",
	"--",
	"a = 1 b = 2 c, d = 3",
	"local t = {} t.x, t.y = 1, 2 return t.x + t.y",
	"return function(a, b, ...) local c <close> = 1 end",
}

// validSnippets must load: lexical and syntactic corner cases of valid Lua 5.1 (+goto) programs.
var validSnippets = []string{
	"local s = [[a\r\nb]] return s",
	"local s = [==[\r\nfirst line end is skipped\r\n]==] return s",
	"local s = \"x\\\r\ny\" return s",
	"local s = \"x\\\ny\" return s",
	"local s = 'a\\\rb' return s",
	"return [[\n\nleading]], [=[ ]] ]=], '\\065\\10\\0'",
	"local t = {} pcall(function(a, b)\n  (t).x = a + b\nend, 3, 4) return t.x",
	"local t = {}\nlocal f = function(a)\n(t)[1] = a\nend\nf(1) return t[1]",
	"local function f(...) return ... end return (f(1, 2))",
	"while true do while true do break end break end return 1",
	"local function never() while true do while true do break end end end return 42",
	"local function never() while true do repeat break until false end end return 42",
	"local function never() repeat repeat until true until false end return 1",
	"for i = 1, 0 do for j = 1, 0 do end end return 2",
	"local function g() ::a:: goto a end return 3",
	"local function g() while true do goto c ::c:: end end return 4",
	"do local x = 1; ::l1:: x = x + 1 if x < 3 then goto l1 end end return 5",
	"return 0x10, 0XfF, 1e2, 1E+2, 1e-2, .5, 5., 3.14, 0.0",
	"return 1--[[c]]+--[==[d]==]2",
	"return--\n1",
	"a = 1; b = 2;; return a + b",
	"local t = {f = function(self, x) return x end} return t:f(1), t.f(t, 2), t['f'](t, 3)",
	"return #'abc', #\"\", -2 ^ 2, 2 ^ 3 ^ 2, not nil == true, 1 .. 2 == '12'",
	"local s = '' for i = 1, 3 do s = s .. i end return s",
	// a goto may jump over a local to labels at the end of the enclosing block (several labels, void statements between)
	"do goto a; local x = 1; ::a:: ::b:: end return 1",
	"do goto a; local x = 1; ::a:: ; ::b:: ; end return 1",
	"local function f() goto done; local y = 2; ::done:: ::really_done:: end f() return 2",
	"for i = 1, 2 do goto continue; local z = i; ::continue:: ::also:: end return 3",
	"local n = 0 while n < 2 do n = n + 1 goto c1; local z = n; ::c1:: ::c2:: ::c3:: end return n",
	"if true then goto e; local w = 1; ::e:: ::e2:: end return 4",
	"goto fin; local q = 1; ::fin:: ::fin2::",
	"return 0x7fffffffffffffff, 0x8000000000000000, 0xffffffffffffffff, 0x10000000000000000, 0xabcdefABCDEF0123456789",
	"return 1e308, 1e309, 10e500, 1e-400, 123456789012345678901234567890",
	// constant expressions the compiler may fold: division and modulo by zero, overflow, NaN
	"return 7 % 0, 2^10 % -0, 10 % (3 - 3), 5 % 0.5, -7 % 3, 7 % -3, 1 / 0, -1 / 0, 0 / 0, 2^1024, 1e308 * 10, (1 / 0) - (1 / 0), -(0 / 0)",
	"if false then local x = 1 % 0 end local y = 8 % (2 - 2) return 3 - 2 ^ 2 ^ 3, 2 ^ -1, -2 ^ 2, not 1 == 2, 1 .. 2",
	"do do goto inner; local u = 1; ::inner:: ::inner2:: end goto outer; local v = 2; ::outer:: ::outer2:: end return 5",
}

const lexAlphabet = "abcxyz_019 \t\n\r.,;:()[]{}=<>~+-*/%^#'\"\\eExX"

var lexWords = []string{"and", "break", "do", "else", "elseif", "end", "false", "for", "function", "goto", "if", "in", "local", "nil", "not", "or",
	"repeat", "return", "then", "true", "until", "while", "::", "...", "..", "==", "~=", "<=", ">=", "[[", "]]", "[=[", "]=]", "--", "--[[", "0x", "1e", "\\", "\n"}

// ---- SimReader ----

// SimReader delivers a byte sequence under a tape-chosen delivery pattern.
type SimReader struct {
	data      string
	pos       int
	pattern   int
	sizes     []int
	idx       int
	rng       *core.SplitMix64
	zeroEvery int // inject a zero-length read every n-th call (0 = never)
	zeroRun   int // consecutive zero reads so far
	sepEOF    bool
	calls     int
	eofCalls  int
	zeroReads int
	shortRead int
	sawEOF    bool
	MaxCalls  int
	Overcall  bool
	// failAt >= 0: once failAt bytes have been delivered every Read reports errSimDisk (a persistent I/O error, as a
	// failing disk or a broken connection gives); errWithData: the first report comes together with the last bytes
	failAt      int
	errWithData bool
	errCalls    int // Read calls made after the error was first reported
}

var errSimDisk = errors.New("SIMDISK: simulated read error")

// errPolled aborts a Load that keeps calling Read after the reader has reported its error many times
var errPolled = errors.New("SIMDISK: reader polled again and again after it had reported an error")

func describePattern(r *SimReader) string {
	return fmt.Sprintf("pattern=%d sizes=%v zeroEvery=%d sepEOF=%v", r.pattern, r.sizes, r.zeroEvery, r.sepEOF)
}

func newSimReader(data string, t *core.Tape) *SimReader {
	r := &SimReader{data: data, failAt: -1}
	r.pattern = t.Choose(6)
	switch r.pattern {
	case 0: // everything at once
	case 1: // fixed small size
		r.sizes = []int{t.Range(1, 17)}
	case 2: // cycle of three sizes
		r.sizes = []int{t.Range(1, 17), t.Range(1, 17), t.Range(1, 64)}
	case 3: // around the bufio size
		r.sizes = []int{4095 + t.Choose(3)}
	case 4: // PRNG-driven from a sub-seed recorded on the tape
		r.rng = core.NewSplitMix64(uint64(t.Choose(1 << 30)))
	case 5: // one byte, then everything
		r.sizes = []int{1, 1 << 30}
	}
	switch t.Choose(4) {
	case 0:
		r.zeroEvery = 0
	case 1:
		r.zeroEvery = 2
	case 2:
		r.zeroEvery = 3
	case 3:
		r.zeroEvery = 7
	}
	r.sepEOF = t.Bool()
	r.MaxCalls = len(data)*3 + 2000
	return r
}

func (r *SimReader) Read(p []byte) (int, error) {
	r.calls++
	if r.calls > r.MaxCalls {
		r.Overcall = true
		return 0, io.EOF
	}
	if r.sawEOF {
		r.eofCalls++
		return 0, io.EOF
	}
	if len(p) == 0 {
		return 0, nil
	}
	if r.failAt >= 0 && r.pos >= r.failAt {
		r.errCalls++
		if r.errCalls > 64 {
			panic(errPolled)
		}
		return 0, errSimDisk
	}
	if r.zeroEvery > 0 && r.calls%r.zeroEvery == 0 && r.zeroRun < 3 {
		r.zeroRun++
		r.zeroReads++
		return 0, nil
	}
	r.zeroRun = 0
	rem := len(r.data) - r.pos
	if rem == 0 {
		r.sawEOF = true
		return 0, io.EOF
	}
	n := rem
	switch {
	case r.rng != nil:
		v := r.rng.Next()
		switch v % 4 {
		case 0:
			n = 1 + int((v>>8)%17)
		case 1:
			n = 1 + int((v>>8)%200)
		case 2:
			n = 4095 + int((v>>8)%3)
		case 3:
			n = 1
		}
	case len(r.sizes) > 0:
		n = r.sizes[r.idx%len(r.sizes)]
		r.idx++
	}
	if n > rem {
		n = rem
	}
	if n > len(p) {
		n = len(p)
	}
	if r.failAt >= 0 && r.pos+n >= r.failAt {
		n = r.failAt - r.pos
		copy(p, r.data[r.pos:r.pos+n])
		r.pos += n
		if r.errWithData || n == 0 {
			r.errCalls++
			return n, errSimDisk
		}
		return n, nil
	}
	if n < rem && n < len(p) {
		r.shortRead++
	}
	copy(p, r.data[r.pos:r.pos+n])
	r.pos += n
	if r.pos == len(r.data) && !r.sepEOF {
		r.sawEOF = true
		return n, io.EOF
	}
	return n, nil
}

// ---- proto comparison ----

func dumpProto(sb *strings.Builder, p *lua.FunctionProto, lines bool) {
	fmt.Fprintf(sb, "P(%d,%d,%d,%d|", p.NumUpvalues, p.NumParameters, p.IsVarArg, p.NumUsedRegisters)
	for _, c := range p.Code {
		fmt.Fprintf(sb, "%x,", c)
	}
	sb.WriteByte('|')
	for _, k := range p.Constants {
		switch v := k.(type) {
		case lua.LNumber:
			fmt.Fprintf(sb, "n%v,", float64(v))
		case lua.LString:
			fmt.Fprintf(sb, "s%q,", string(v))
		default:
			fmt.Fprintf(sb, "?%v,", k)
		}
	}
	sb.WriteByte('|')
	for _, l := range p.DbgLocals {
		fmt.Fprintf(sb, "%s:%d:%d,", l.Name, l.StartPc, l.EndPc)
	}
	sb.WriteByte('|')
	for _, c := range p.DbgCalls {
		fmt.Fprintf(sb, "%s@%d,", c.Name, c.Pc)
	}
	sb.WriteByte('|')
	for _, u := range p.DbgUpvalues {
		sb.WriteString(u)
		sb.WriteByte(',')
	}
	if lines {
		fmt.Fprintf(sb, "|L%d-%d:", p.LineDefined, p.LastLineDefined)
		for _, l := range p.DbgSourcePositions {
			fmt.Fprintf(sb, "%d,", l)
		}
	}
	sb.WriteByte('|')
	for _, c := range p.FunctionPrototypes {
		dumpProto(sb, c, lines)
	}
	sb.WriteByte(')')
}

func protoHash(p *lua.FunctionProto, lines bool) uint64 {
	var sb strings.Builder
	dumpProto(&sb, p, lines)
	return uint64(core.NewHash().Str(sb.String()))
}

type verdict struct {
	ok       bool
	class    string // "function", "syntax", or a violation class
	detail   string
	hLines   uint64
	hNoLines uint64
}

// L is shared across loads of one run: Load must not depend on state.
func loadOnce(L *lua.LState, rd io.Reader, viaString string, mode int) (v verdict) {
	defer func() {
		if r := recover(); r != nil {
			v = verdict{class: "escape", detail: fmt.Sprintf("Go panic left Load: %v\n%s", r, firstN(string(debug.Stack()), 1500))}
		}
	}()
	var fn *lua.LFunction
	var err error
	switch mode {
	case 0:
		fn, err = L.Load(rd, "<sim>")
	case 2:
		fn, err = L.LoadFile(viaString)
	default:
		fn, err = L.LoadString(viaString)
	}
	if err != nil {
		ae, ok := err.(*lua.ApiError)
		if !ok {
			return verdict{class: "misclassified", detail: fmt.Sprintf("error is not *ApiError: %T %v", err, err)}
		}
		if ae.Type != lua.ApiErrorSyntax {
			return verdict{class: "misclassified", detail: fmt.Sprintf("ApiError type %d, want ApiErrorSyntax: %v", ae.Type, err)}
		}
		if fn != nil {
			return verdict{class: "misclassified", detail: "both a function and an error returned"}
		}
		return verdict{ok: true, class: "syntax", detail: firstN(err.Error(), 200)}
	}
	if fn == nil || fn.Proto == nil {
		return verdict{class: "misclassified", detail: "nil function without error"}
	}
	return verdict{ok: true, class: "function", hLines: protoHash(fn.Proto, true), hNoLines: protoHash(fn.Proto, false)}
}

func firstN(s string, n int) string {
	if len(s) > n {
		return s[:n] + "..."
	}
	return s
}

func quoteShort(s string) string {
	if len(s) > 300 {
		return fmt.Sprintf("%q...(%d bytes)", s[:300], len(s))
	}
	return fmt.Sprintf("%q", s)
}

var stateOnce sync.Once
var sharedL *lua.LState

func (e *Engine) Run(t *core.Tape, cfg *core.Config, st *core.Stats) *core.Violation {
	corpusOnce.Do(loadCorpus)
	stateOnce.Do(func() { sharedL = lua.NewState(lua.Options{SkipOpenLibs: true}) })
	L := sharedL

	// 1. base text
	var src string
	var srcName string
	var pinned *corpusEntry
	valid := false // known to be a valid program
	switch k := t.Weighted([]int{4, 4, 3, 1, 1, 3, 2, 1}); k {
	case 7: // a run of one byte (continuation bytes, lead bytes, NUL, quotes, backslashes, brackets, ...) inside or instead of a token
		pre := []string{"x = \"", "local '", "x = [[", "--[[", "--", "x = 0x", "x = ", "", "return ", "x = \"a\\", "goto ", "::"}[t.Choose(12)]
		bs := []byte{0x80, 0xbf, 0xc0, 0xe0, 0xf0, 0xff, 0x00, '\\', '"', '\'', '[', ']', '=', '-', '0', '.', 'e', '(', '{', ':', ' ', '\r'}
		run := strings.Repeat(string([]byte{bs[t.Choose(len(bs))]}), []int{1, 2, 31, 32, 33, 63, 64, 65, 66, 80, 127, 128, 129, 255, 256, 257, 300}[t.Choose(17)])
		suf := []string{"\n", "", "\"", "'", "]]", " x", "\n\"", ")"}[t.Choose(8)]
		src, srcName = pre+run+suf, "byte-run"
		st.Probe("byte_run_source")
	case 6: // valid programs with one very long token or very many tokens (lengths and counts around buffer sizes and powers of two)
		n := []int{250, 255, 256, 257, 511, 512, 1023, 1024, 4094, 4095, 4096, 4097, 8191, 8192, 8193, 20000, 65535, 65536, 70000}[t.Choose(19)]
		var sb strings.Builder
		kind := t.Choose(9)
		switch kind {
		case 0: // a long short-string
			sb.WriteString("local s = \"" + strings.Repeat("a", n) + "\" return #s")
		case 1: // a long long-string with line ends inside
			sb.WriteString("local s = [==[" + strings.Repeat("ab\n", n/3) + "]==] return #s")
		case 2: // a long identifier
			id := "v" + strings.Repeat("x", n)
			sb.WriteString("local " + id + " = 1 return " + id)
		case 3: // a long numeral
			sb.WriteString("return 1" + strings.Repeat("0", n%300) + " + 0." + strings.Repeat("0", n) + "1")
		case 4: // a long line comment and a long block comment
			sb.WriteString("--" + strings.Repeat("c", n) + "\nlocal a = 1 --[[" + strings.Repeat("d", n) + "]] return a")
		case 5: // many blank lines
			sb.WriteString("local a = 1" + strings.Repeat("\n", n) + "return a")
		case 6: // many statements
			m := n
			if m > 9000 {
				m = 9000
			}
			sb.WriteString("local a = 0\n")
			for i := 0; i < m; i++ {
				sb.WriteString("a = a + 1\n")
			}
			sb.WriteString("return a")
		case 7: // many string escapes
			sb.WriteString("local s = \"" + strings.Repeat("\\n\\065\\\\", n/3) + "\" return #s")
		default: // many of one syntactic unit inside one function or one expression
			m := n
			if m > 5000 {
				m = 5000
			}
			sub := t.Choose(16)
			kind = 100 + sub
			rep := func(unit string, k int) string { return strings.Repeat(unit, k) }
			switch sub {
			case 0:
				sb.WriteString("local a = 1 return a" + rep(" + a", m))
			case 1:
				sb.WriteString("local a = 1 return a" + rep(" and a", m))
			case 2:
				sb.WriteString("local a = false return a" + rep(" or a", m))
			case 3:
				sb.WriteString("local a, b = 1, false if a" + rep(" and a or b", m/2) + " then return 1 end return 2")
			case 4:
				sb.WriteString("local a = 'x' return a" + rep(" .. a", min(m, 120)))
			case 5: // nested parentheses
				k := min(m, 180)
				sb.WriteString("local a = 1 return " + rep("(", k) + "a" + rep(")", k))
			case 6: // nested functions
				k := min(m, 60)
				sb.WriteString("local a = 1 return " + rep("(function() return ", k) + "a" + rep(" end)()", k))
			case 7: // nested table constructors
				k := min(m, 150)
				sb.WriteString("return " + rep("{", k) + rep("}", k))
			case 8: // an if with many elseif branches
				sb.WriteString("local a = 0 if a == 1 then return 1")
				for i := 0; i < min(m, 2000); i++ {
					fmt.Fprintf(&sb, " elseif a == %d then return %d", i+2, i)
				}
				sb.WriteString(" else return -1 end")
			case 9: // many distinct constants (beyond the 8-bit constant operand)
				sb.WriteString("local t = {}\n")
				for i := 0; i < min(m, 1500); i++ {
					fmt.Fprintf(&sb, "t.k%d = %d.5\n", i, i)
				}
				sb.WriteString("return t.k0")
			case 10: // a table constructor with many positional and named items
				sb.WriteString("local t = {")
				for i := 0; i < min(m, 3000); i++ {
					if i%7 == 3 {
						fmt.Fprintf(&sb, "f%d = %d, ", i, i)
					} else {
						fmt.Fprintf(&sb, "%d, ", i)
					}
				}
				sb.WriteString("} return #t")
			case 11: // many labels and gotos in one function
				k := min(m, 800)
				sb.WriteString("local n = 0\n")
				for i := 0; i < k; i++ {
					fmt.Fprintf(&sb, "goto l%d ::l%d:: n = n + 1\n", i, i)
				}
				sb.WriteString("return n")
			case 12: // many locals, many return values, many arguments (within the register limit)
				k := min(m, 80)
				var names, vals []string
				for i := 0; i < k; i++ {
					names = append(names, fmt.Sprintf("v%d", i))
					vals = append(vals, fmt.Sprint(i))
				}
				sb.WriteString("local " + strings.Join(names, ", ") + " = " + strings.Join(vals, ", ") + "\nlocal function f(...) return ... end\nreturn f(" + strings.Join(names, ", ") + ")")
			case 13: // a long chain of method calls and index operations
				k := min(m, 1000)
				sb.WriteString("local o = {} function o:m() return self end o.f = o return o" + rep(":m().f", k))
			case 14: // a ']' followed by many '=' inside a long string and inside a long comment
				k := 1 + n%300
				sb.WriteString("local s = [[a]" + rep("=", k) + "x]] --[[ ]" + rep("=", k) + " ]] return #s")
			default: // many nested blocks
				k := min(m, 150)
				sb.WriteString("local a = 0 " + rep("do ", k) + "a = a + 1 " + rep("end ", k) + "return a")
			}
		}
		src, srcName = sb.String(), fmt.Sprintf("long-token-kind%d-%d", kind, n)
		valid = true
		st.Probe("long_token_program")
	case 5: // grammatical programs that hit the compiler's own error paths (goto/label/break/vararg/limit checks) in random nesting contexts
		src = compileEdgeProgram(t)
		srcName = "compile-edge"
		st.Probe("compile_edge_program")
	case 0: // generated SimLua program
		p := ir.Generate(t, ir.ProfileFor("stream"))
		src = ir.Render(p, ir.DrawLayout(t)).Source
		srcName = "simlua"
		valid = true
	case 1:
		if len(corpus) == 0 {
			st.Discarded++
			return nil
		}
		c := corpus[t.Choose(len(corpus))]
		src, srcName, pinned = c.data, c.name, c.pinned
		valid = pinned != nil && pinned.Loads
	case 2:
		if t.Bool() {
			i := t.Choose(len(validSnippets))
			src, srcName = validSnippets[i], fmt.Sprintf("validsnippet%d", i)
			valid = true
			break
		}
		i := t.Choose(len(snippets))
		src, srcName = snippets[i], fmt.Sprintf("snippet%d", i)
	case 3: // random bytes
		n := t.Range(0, 200)
		b := make([]byte, n)
		rng := core.NewSplitMix64(uint64(t.Choose(1 << 30)))
		for i := range b {
			b[i] = byte(rng.Next())
		}
		src, srcName = string(b), "randombytes"
	case 4: // random text over the lexer's alphabet and keywords
		n := t.Range(0, 80)
		rng := core.NewSplitMix64(uint64(t.Choose(1 << 30)))
		var sb strings.Builder
		for i := 0; i < n; i++ {
			v := rng.Next()
			if v%3 == 0 {
				sb.WriteString(lexWords[int(v>>8)%len(lexWords)])
				sb.WriteByte(' ')
			} else {
				sb.WriteByte(lexAlphabet[int(v>>8)%len(lexAlphabet)])
			}
		}
		src, srcName = sb.String(), "lexalphabet"
	}

	// 2. mutation
	mut := t.Weighted([]int{3, 3, 3, 1, 1, 1})
	orig := src
	mutDesc := "none"
	var origNoLines uint64
	haveOrig := false
	switch mut {
	case 1: // layout re-rendering (only meaningful when the tokenizer understands the text)
		toks, ok := luatok.Tokenize(src)
		if ok && len(toks) > 0 {
			src = luatok.Render(toks, t)
			mutDesc = "relayout"
			bv := loadOnce(L, strings.NewReader(orig), "", 0)
			st.Evals++
			if !bv.ok {
				return core.Violationf(bv.class, "source %s: %s\ninput: %s", srcName, bv.detail, quoteShort(orig))
			}
			if bv.class == "function" {
				haveOrig = true
				origNoLines = bv.hNoLines
			} else if valid {
				return core.Violationf("rejects-valid", "source %s is a valid program but was rejected: %s\ninput: %s", srcName, bv.detail, quoteShort(orig))
			}
		} else {
			mutDesc = "none"
			mut = 0
		}
	case 2: // truncate at an offset
		if len(src) > 0 {
			off := t.Choose(len(src))
			src = src[:off]
			mutDesc = fmt.Sprintf("truncate@%d", off)
			st.Fault("truncate")
		}
		valid = false
	case 3:
		if len(src) > 0 {
			off := t.Choose(len(src))
			bit := byte(1) << uint(t.Choose(8))
			b := []byte(src)
			b[off] ^= bit
			src = string(b)
			mutDesc = fmt.Sprintf("flip@%d^%#x", off, bit)
			st.Fault("byteflip")
		}
		valid = false
	case 4:
		if len(src) > 0 {
			off := t.Choose(len(src))
			src = src[:off] + src[off+1:]
			mutDesc = fmt.Sprintf("delete@%d", off)
			st.Fault("bytedelete")
		}
		valid = false
	case 5:
		if len(src) > 0 {
			off := t.Choose(len(src))
			src = src[:off+1] + src[off:]
			mutDesc = fmt.Sprintf("dup@%d", off)
			st.Fault("bytedup")
		}
		valid = false
	}

	// 3. baseline through a plain reader
	base := loadOnce(L, strings.NewReader(src), "", 0)
	st.Evals++
	st.Steps += int64(len(src))
	if !base.ok {
		return core.Violationf(base.class, "source %s mutation %s: %s\ninput: %s", srcName, mutDesc, base.detail, quoteShort(src))
	}
	if valid && base.class != "function" {
		return core.Violationf("rejects-valid", "source %s (%s) is a valid program but was rejected: %s\ninput: %s", srcName, mutDesc, base.detail, quoteShort(src))
	}
	if pinned != nil && mut == 0 && pinned.Loads != (base.class == "function") {
		return core.Violationf("corpus-verdict", "corpus file %s: pinned loads=%v, now %s (%s)", srcName, pinned.Loads, base.class, base.detail)
	}
	if mutDesc == "relayout" && haveOrig {
		st.Probe("relayout_compared")
		if base.class != "function" {
			return core.Violationf("layout-dependence", "source %s loads, its re-rendering does not: %s\noriginal: %s\nrelayout: %s", srcName, base.detail, quoteShort(orig), quoteShort(src))
		}
		if base.hNoLines != origNoLines {
			return core.Violationf("layout-dependence", "source %s: prototype differs after re-rendering (line info ignored)\noriginal: %s\nrelayout: %s", srcName, quoteShort(orig), quoteShort(src))
		}
	}
	if base.class == "function" {
		st.Probe("verdict_function")
	} else {
		st.Probe("verdict_syntax_error")
	}
	// LoadString must agree
	if t.Choose(4) == 0 {
		v2 := loadOnce(L, nil, src, 1)
		st.Evals++
		if !v2.ok {
			return core.Violationf(v2.class, "LoadString, source %s mutation %s: %s\ninput: %s", srcName, mutDesc, v2.detail, quoteShort(src))
		}
		if v2.class != base.class || v2.hLines != base.hLines {
			return core.Violationf("nondeterministic-load", "Load and LoadString disagree on %s (%s): %s vs %s\ninput: %s", srcName, mutDesc, base.class, v2.class, quoteShort(src))
		}
	}

	// the chunk name is not part of the bytes: the verdict does not depend on it
	if t.Choose(6) == 0 {
		name := []string{"", "=", "@", "=x", "@file.lua", "a:b", "%s%d", strings.Repeat("n", 300), "\n", "=[C]", "\x00"}[t.Choose(11)]
		var vn verdict
		func() {
			defer func() {
				if r := recover(); r != nil {
					vn = verdict{class: "escape", detail: fmt.Sprintf("Go panic left Load: %v", r)}
				}
			}()
			fn, err := L.Load(strings.NewReader(src), name)
			switch {
			case err == nil && fn != nil:
				vn = verdict{ok: true, class: "function", hNoLines: protoHash(fn.Proto, false)}
			case err != nil:
				if ae, isA := err.(*lua.ApiError); isA && ae.Type == lua.ApiErrorSyntax {
					vn = verdict{ok: true, class: "syntax"}
				} else {
					vn = verdict{class: "misclassified", detail: fmt.Sprintf("%T %v", err, err)}
				}
			}
		}()
		st.Evals++
		st.Probe("load_under_another_chunk_name")
		if !vn.ok {
			return core.Violationf(vn.class, "Load of %s (%s) under the chunk name %q: %s\ninput: %s", srcName, mutDesc, name, vn.detail, quoteShort(src))
		}
		if vn.class != base.class || (vn.class == "function" && vn.hNoLines != base.hNoLines) {
			return core.Violationf("nondeterministic-load", "the verdict on %s (%s) depends on the chunk name: %s under \"<sim>\", %s under %q\ninput: %s", srcName, mutDesc, base.class, vn.class, name, quoteShort(src))
		}
	}

	// LoadFile must agree: the same text behind a first line that starts with '#' (skipped, whatever its length)
	if t.Choose(6) == 0 {
		fill := []int{0, 1, 60, 4093, 4094, 4095, 4096, 4097, 8191, 8192, 9000}[t.Choose(11)]
		f, err := os.CreateTemp("", "streamload*.lua")
		if err != nil {
			panic(err)
		}
		f.WriteString("#" + strings.Repeat("!", fill) + "\n" + src)
		f.Close()
		v3 := loadOnce(L, nil, f.Name(), 2)
		os.Remove(f.Name())
		st.Evals++
		st.Probe("loadfile_behind_hash_line")
		if !v3.ok {
			return core.Violationf(v3.class, "LoadFile, source %s mutation %s behind a '#' line of %d bytes: %s\ninput: %s", srcName, mutDesc, fill+1, v3.detail, quoteShort(src))
		}
		if v3.class != base.class || v3.hNoLines != base.hNoLines {
			return core.Violationf("nondeterministic-load", "Load and LoadFile (text behind a '#' line of %d bytes) disagree on %s (%s): %s vs %s (%s)\ninput: %s", fill+1, srcName, mutDesc, base.class, v3.class, v3.detail, quoteShort(src))
		}
		// the skipped line still counts as a line: positions are those of the text behind one line end
		if v3.class == "function" {
			vnl := loadOnce(L, strings.NewReader("\n"+src), "", 0)
			st.Evals++
			if vnl.class == "function" && vnl.hLines != v3.hLines {
				return core.Violationf("line-numbers", "LoadFile of %s (%s) behind a '#' line of %d bytes: the source positions differ from those of the same text behind an empty first line\ninput: %s", srcName, mutDesc, fill+1, quoteShort(src))
			}
		}
	}

	// 4. deliveries
	sum := sha256.Sum256([]byte(src))
	srcH := uint64(core.NewHash().Str(string(sum[:8])))
	nd := t.Range(3, 5)
	for d := 0; d < nd; d++ {
		rd := newSimReader(src, t)
		v := loadOnce(L, rd, "", 0)
		st.Evals++
		st.Steps += int64(len(src))
		st.FaultN("short_read", rd.shortRead)
		st.FaultN("zero_read", rd.zeroReads)
		if rd.sepEOF {
			st.Fault("eof_separate")
		} else {
			st.Fault("eof_with_data")
		}
		if rd.eofCalls > 0 {
			st.Probe("read_after_eof")
		}
		if len(src) > 4096 && rd.pattern != 0 {
			st.Probe("chunked_across_4096")
		}
		nontrivial := rd.pattern != 0 || rd.zeroReads > 0 || mut != 0
		if nontrivial {
			st.Distinct(uint64(core.Hash(srcH).Int(rd.pattern).Int(rd.zeroEvery).Int(len(rd.sizes)).Str(fmt.Sprint(rd.sizes, rd.sepEOF))))
		}
		st.Event("load %s mut=%s %s -> %s", srcName, mutDesc, describePattern(rd), v.class)
		st.D(v.hLines ^ uint64(len(v.class)))
		if rd.Overcall {
			return core.Violationf("hang", "Load kept calling Read (> %d calls) on %s (%s) %s\ninput: %s", rd.MaxCalls, srcName, mutDesc, describePattern(rd), quoteShort(src))
		}
		if !v.ok {
			return core.Violationf(v.class, "source %s mutation %s delivery %s: %s\ninput: %s", srcName, mutDesc, describePattern(rd), v.detail, quoteShort(src))
		}
		if v.class == "syntax" && base.class == "syntax" && v.detail != base.detail {
			return core.Violationf("nondeterministic-load", "source %s mutation %s: the same bytes gave two different error values: %q (plain reader) and %q (delivery %s)\ninput: %s",
				srcName, mutDesc, base.detail, v.detail, describePattern(rd), quoteShort(src))
		}
		if v.class != base.class || v.hLines != base.hLines {
			return core.Violationf("chunking-dependence", "source %s mutation %s: plain reader gives %s (%s), delivery %s gives %s (%s)\ninput: %s",
				srcName, mutDesc, base.class, base.detail, describePattern(rd), v.class, v.detail, quoteShort(src))
		}
	}
	// 5. a reader that fails: after some of the bytes every Read reports an I/O error. Load must end, with an error.
	for d, nf := 0, 1+t.Choose(3); d < nf; d++ {
		rd := newSimReader(src, t)
		rd.failAt = t.Choose(len(src) + 1)
		if t.Choose(3) == 0 {
			// right behind a place where the scanner is inside a comment, a string or a long bracket
			for _, open := range []string{"--", "[[", "\"", "'", "[=["} {
				if i := strings.Index(src[rd.failAt:], open); i >= 0 {
					rd.failAt += i + len(open)
					break
				}
			}
		}
		rd.errWithData = t.Bool()
		v := loadOnce(L, rd, "", 0)
		st.Evals++
		st.Fault("read_error")
		st.Event("load %s mut=%s read error after %d of %d bytes -> %s", srcName, mutDesc, rd.failAt, len(src), v.class)
		what := fmt.Sprintf("source %s mutation %s: the reader reports an I/O error after %d of %d bytes (%s)", srcName, mutDesc, rd.failAt, len(src), describePattern(rd))
		if rd.errCalls > 64 || rd.Overcall {
			return core.Violationf("hang", "%s: Load kept calling Read, %d calls after the error was first reported\ninput: %s", what, rd.errCalls, quoteShort(src))
		}
		if !v.ok {
			return core.Violationf(v.class, "%s: %s\ninput: %s", what, v.detail, quoteShort(src))
		}
		if v.class == "function" {
			return core.Violationf("read-error-ignored", "%s: Load returned a function and no error\ninput: %s", what, quoteShort(src))
		}
	}
	// 6. the Lua-level loader with a reader function, on a state that is kept across runs: a load whose reader fails
	// part-way (raises an error, or returns something that is not a string), then a complete load of the same text.
	// What a failed load saw must not leak into the next one.
	if t.Choose(3) == 0 && len(src) > 0 && len(src) < 20000 {
		baseOnce.Do(func() {
			baseL = lua.NewState(lua.Options{SkipOpenLibs: true})
			baseL.Push(baseL.NewFunction(lua.OpenBase))
			baseL.Push(lua.LString(lua.BaseLibName))
			baseL.Call(1, 0)
		})
		B := baseL
		piece := 1 + t.Choose(40)
		nPieces := (len(src) + piece - 1) / piece
		failAt := -1
		failKind := 0
		deliver := func() (v verdict) {
			i := 0
			rd := B.NewFunction(func(L *lua.LState) int {
				if i == failAt {
					i++
					if failKind == 0 {
						L.RaiseError("SIMDISK: the reader function failed")
					}
					L.Push(L.NewTable()) // not a string
					return 1
				}
				if i*piece >= len(src) {
					L.Push(lua.LNil)
					return 1
				}
				end := (i + 1) * piece
				if end > len(src) {
					end = len(src)
				}
				L.Push(lua.LString(src[i*piece : end]))
				i++
				return 1
			})
			defer func() {
				if r := recover(); r != nil {
					v = verdict{class: "escape", detail: fmt.Sprintf("Go panic left load(): %v", r)}
				}
			}()
			top := B.GetTop()
			defer B.SetTop(top)
			if err := B.CallByParam(lua.P{Fn: B.GetGlobal("load"), NRet: 2, Protect: true}, rd, lua.LString("<sim>")); err != nil {
				return verdict{ok: true, class: "raised", detail: firstN(err.Error(), 200)}
			}
			if fn, ok := B.Get(-2).(*lua.LFunction); ok && fn.Proto != nil {
				return verdict{ok: true, class: "function", hLines: protoHash(fn.Proto, true)}
			}
			return verdict{ok: true, class: "syntax", detail: firstN(B.Get(-1).String(), 200)}
		}
		// the failing delivery first
		failAt, failKind = t.Choose(nPieces+1), t.Choose(2)
		v1 := deliver()
		st.Evals++
		st.Fault("reader_function_fails")
		if !v1.ok {
			return core.Violationf(v1.class, "source %s mutation %s, load() with a reader function that fails at piece %d of %d: %s\ninput: %s", srcName, mutDesc, failAt, nPieces, v1.detail, quoteShort(src))
		}
		failedAt := failAt
		failAt = -1
		v2 := deliver()
		st.Evals++
		if !v2.ok {
			return core.Violationf(v2.class, "source %s mutation %s, load() with a reader function: %s\ninput: %s", srcName, mutDesc, v2.detail, quoteShort(src))
		}
		if v2.class != base.class || v2.hLines != base.hLines {
			return core.Violationf("earlier-load-leaks", "source %s mutation %s: Load gives %s (%s); load() with a reader function in pieces of %d bytes, called after a load() whose reader had failed at piece %d of %d (outcome: %s %s), gives %s (%s)\ninput: %s",
				srcName, mutDesc, base.class, base.detail, piece, failedAt, nPieces, v1.class, v1.detail, v2.class, v2.detail, quoteShort(src))
		}
	}
	if st.WantSample() {
		st.Sample(map[string]interface{}{"source": srcName, "mutation": mutDesc, "bytes": len(src), "verdict": base.class, "head": firstN(src, 120)})
	}
	return nil
}

var baseOnce sync.Once
var baseL *lua.LState

// compileEdgeProgram wraps a payload that exercises a compile-time check in a
// random nesting of blocks and functions with a random number of surrounding
// locals and parameters. Whether the result is accepted is not judged here,
// only that loading ends in a function or a syntax/compile error.
func compileEdgeProgram(t *core.Tape) string {
	payloads := []string{
		"goto L%d\nlocal x%d = 1\n::L%d::\nprint(x%d)",
		"goto L%d\nlocal x%d = 1\n::L%d::",
		"do goto L%d end\nlocal y%d = 2\n::L%d:: y%d = 3",
		"goto nolabel%d",
		"::a%d:: ::a%d::",
		"::a%d:: do ::a%d:: end",
		"break",
		"local f%d = function() break end",
		"local f%d = function() return ... end",
		"local f%d = function(...) local g = function() return ... end return g end",
		"for i = 1, 3 do local v%d = i if i == 2 then goto cont%d end v%d = v%d + 1 ::cont%d:: end",
		"repeat local z%d = 1 if z%d then break end until z%d",
		"do local a%d <const> = 1 end",
		"::top%d:: local q%d = 1 if q%d then goto top%d end",
		"goto f%d local function f%d() end ::f%d::",
		"while true do goto out%d end ::out%d::",
		"return",
		"return 1, 2",
	}
	if t.Choose(4) == 0 {
		// degenerate loop nests: only control statements (jump-to-jump chains and cycles in the code generator)
		var gen func(d int) string
		lbl := 0
		gen = func(d int) string {
			var sb strings.Builder
			k := t.Choose(3)
			for i := 0; i <= k; i++ {
				c := t.Choose(8)
				if d >= 4 && c < 4 {
					c = 4 + t.Choose(4)
				}
				switch c {
				case 0:
					sb.WriteString("while true do " + gen(d+1) + " end ")
				case 1:
					sb.WriteString("repeat " + gen(d+1) + " until " + []string{"false", "true", "c0"}[t.Choose(3)] + " ")
				case 2:
					sb.WriteString("for i = 1, 0 do " + gen(d+1) + " end ")
				case 3:
					sb.WriteString("if c0 then " + gen(d+1) + " else " + gen(d+1) + " end ")
				case 4:
					if d > 0 {
						sb.WriteString("do break end ")
					}
				case 5:
					lbl++
					sb.WriteString(fmt.Sprintf("do goto l%d end ::l%d:: ", lbl, lbl))
				case 6:
					sb.WriteString("do end ")
				case 7:
					if d > 0 && t.Bool() {
						sb.WriteString("break ")
						return sb.String()
					}
				}
			}
			return sb.String()
		}
		return "local c0 = 0\nlocal function never()\n" + gen(0) + "\nend\nreturn 1\n"
	}
	n := t.Choose(len(payloads) + 3)
	var payload string
	id := t.Choose(5)
	switch {
	case n < len(payloads):
		payload = strings.ReplaceAll(payloads[n], "%d", fmt.Sprint(id))
	case n == len(payloads): // too many locals
		var sb strings.Builder
		cnt := 190 + t.Choose(30)
		for i := 0; i < cnt; i++ {
			fmt.Fprintf(&sb, "local l%d = %d\n", i, i)
		}
		payload = sb.String()
	case n == len(payloads)+1: // a call with very many arguments (register pressure)
		var args []string
		cnt := 200 + t.Choose(100)
		for i := 0; i < cnt; i++ {
			args = append(args, fmt.Sprint(i))
		}
		payload = "print(" + strings.Join(args, ", ") + ")"
	default: // deeply nested expression
		depth := 50 + t.Choose(200)
		payload = "local e = " + strings.Repeat("(1 + ", depth) + "1" + strings.Repeat(")", depth)
	}
	// nesting context
	var pre, post []string
	depth := t.Choose(5)
	lid := 0
	for d := 0; d < depth; d++ {
		nl := t.Choose(6)
		for i := 0; i < nl; i++ {
			lid++
			pre = append(pre, fmt.Sprintf("local c%d = %d", lid, lid))
		}
		switch t.Choose(6) {
		case 0:
			pre = append(pre, "do")
			post = append([]string{"end"}, post...)
		case 1:
			pre = append(pre, "while c0 do")
			post = append([]string{"end"}, post...)
		case 2:
			pre = append(pre, "if c0 then")
			post = append([]string{"end"}, post...)
		case 3:
			np := t.Choose(5)
			var ps []string
			for i := 0; i < np; i++ {
				ps = append(ps, fmt.Sprintf("p%d_%d", d, i))
			}
			pre = append(pre, fmt.Sprintf("local function fn%d(%s)", d, strings.Join(ps, ", ")))
			post = append([]string{"end"}, post...)
		case 4:
			pre = append(pre, fmt.Sprintf("for i%d = 1, 2 do", d))
			post = append([]string{"end"}, post...)
		case 5:
			pre = append(pre, "repeat")
			post = append([]string{"until c0"}, post...)
		}
	}
	nl := t.Choose(6)
	for i := 0; i < nl; i++ {
		lid++
		pre = append(pre, fmt.Sprintf("local c%d = %d", lid, lid))
	}
	var tail []string
	if t.Choose(2) == 0 {
		tail = append(tail, "c0 = 1")
	}
	return "local c0 = 0\n" + strings.Join(pre, "\n") + "\n" + payload + "\n" + strings.Join(tail, "\n") + "\n" + strings.Join(post, "\n") + "\n"
}

func min(a, b int) int {
	if a < b {
		return a
	}
	return b
}
