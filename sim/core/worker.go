package core

import (
	"bufio"
	"encoding/binary"
	"encoding/json"
	"fmt"
	"os"
	"runtime/debug"
	"sort"
	"sync"
	"sync/atomic"
	"time"
)

// Messages a worker writes to stdout, one JSON object per line.
type WorkerMsg struct {
	Type string `json:"type"` // start | violation | crash | hang | summary

	Run  int64  `json:"run,omitempty"`
	Seed uint64 `json:"seed,omitempty"`

	Class   string   `json:"class,omitempty"`
	Detail  string   `json:"detail,omitempty"`
	Tape    []uint32 `json:"tape,omitempty"`
	Aux     []int64  `json:"aux,omitempty"`
	Events  []string `json:"events,omitempty"`
	Shrunk  bool     `json:"shrunk,omitempty"`
	OrigLen int      `json:"orig_len,omitempty"`

	Stats *StatsMsg `json:"stats,omitempty"`
	Dig   string    `json:"dig,omitempty"`
}

type StatsMsg struct {
	Runs      int64            `json:"runs"`
	Evals     int64            `json:"evals"`
	Steps     int64            `json:"steps"`
	Discarded int64            `json:"discarded"`
	Faults    map[string]int64 `json:"faults"`
	Probes    map[string]int64 `json:"probes"`
	Distinct  []uint64         `json:"distinct"`
	DistinctW []int32          `json:"distinct_w"`
	Samples   []interface{}    `json:"samples"`
	WallS     float64          `json:"wall_s"`
	Race      bool             `json:"race"`
}

type WorkerArgs struct {
	Property string
	Tier     string
	Seed     uint64
	Idx      int
	Count    int
	BudgetS  float64
	Race     bool
	Disabled []string
	Sub      string
	// RunCapS is the wall-clock cap for one run (watchdog).
	RunCapS float64
	// AnnounceRuns makes the worker print a start line per run (race mode).
	AnnounceRuns bool
	// Replay: run exactly this tape / seed once.
	ReplayTape []uint32
	ReplaySeed uint64
	ReplayAux  []int64
	Replay     bool
	MaxRuns    int64
	// NoShrink: report a violation as found (history replays).
	NoShrink bool
	// Digest makes the worker print one behaviour digest per run (determinism self-test).
	Digest bool
	// CurFile: the worker records the index and seed of the run it is about to execute in this file
	// (16 bytes, overwritten in place), so that the supervisor knows which run killed the process when
	// the code under test crashes it in a way no recover() can stop (fatal error, stack exhaustion).
	CurFile string
}

var outMu sync.Mutex
var outW = bufio.NewWriterSize(os.Stdout, 1<<16)

func emit(m *WorkerMsg) {
	b, err := json.Marshal(m)
	if err != nil {
		b, _ = json.Marshal(&WorkerMsg{Type: "crash", Detail: "marshal: " + err.Error()})
	}
	outMu.Lock()
	outW.Write(b)
	outW.WriteByte('\n')
	outW.Flush()
	outMu.Unlock()
}

// SafeRun runs the engine once and converts an escaping Go panic into a crash report.
func SafeRun(e Engine, t *Tape, cfg *Config, st *Stats) (v *Violation, crash string) {
	defer func() {
		if r := recover(); r != nil {
			crash = fmt.Sprintf("panic in engine %s: %v\n%s", e.Name(), r, debug.Stack())
		}
	}()
	v = e.Run(t, cfg, st)
	return
}

func mkConfig(a *WorkerArgs) *Config {
	cfg := &Config{Property: a.Property, Tier: a.Tier, Thorough: a.Tier == "thorough", Race: a.Race, Disabled: map[string]bool{}, Sub: a.Sub}
	for _, d := range a.Disabled {
		cfg.Disabled[d] = true
	}
	if a.Replay {
		cfg.Aux = a.ReplayAux
	}
	return cfg
}

func propHash(p string) uint64 { return uint64(NewHash().Str(p)) }

// RunSeed derives the seed of run i of a property from VERIF_SEED.
func RunSeed(seed uint64, property string, i int64) uint64 {
	return Mix(seed, propHash(property), uint64(i))
}

// WorkerMain is the body of a worker process.
func WorkerMain(e Engine, a *WorkerArgs) int {
	cfg := mkConfig(a)
	st := NewStats()
	start := time.Now()

	var curSeed uint64
	var curRun int64
	var curStart int64 // unix nanos of the current run's start, 0 = idle
	if a.RunCapS > 0 {
		go func() {
			for {
				time.Sleep(250 * time.Millisecond)
				s := atomic.LoadInt64(&curStart)
				if s != 0 && time.Since(time.Unix(0, s)).Seconds() > a.RunCapS {
					emit(&WorkerMsg{Type: "hang", Run: atomic.LoadInt64(&curRun), Seed: atomic.LoadUint64(&curSeed),
						Detail: fmt.Sprintf("run exceeded %.0fs wall clock", a.RunCapS), Tape: a.ReplayTape})
					os.Exit(3)
				}
			}
		}()
	}

	if a.Replay {
		var t *Tape
		if a.ReplayTape != nil {
			t = ReplayTape(a.ReplayTape)
		} else {
			t = NewTape(a.ReplaySeed)
		}
		atomic.StoreUint64(&curSeed, a.ReplaySeed)
		atomic.StoreInt64(&curStart, time.Now().UnixNano())
		v, crash := SafeRun(e, t, cfg, st)
		atomic.StoreInt64(&curStart, 0)
		if crash != "" {
			emit(&WorkerMsg{Type: "crash", Detail: crash})
			return 2
		}
		if v != nil {
			emit(&WorkerMsg{Type: "violation", Seed: a.ReplaySeed, Class: v.Class, Detail: v.Detail, Tape: a.ReplayTape, Aux: a.ReplayAux, Events: st.Events})
			return 1
		}
		emit(&WorkerMsg{Type: "summary", Stats: statsMsg(st, start, a.Race)})
		return 0
	}

	var curF *os.File
	if a.CurFile != "" {
		curF, _ = os.OpenFile(a.CurFile, os.O_CREATE|os.O_WRONLY, 0o600)
	}
	for i := int64(a.Idx); ; i += int64(a.Count) {
		if time.Since(start).Seconds() > a.BudgetS {
			break
		}
		if a.MaxRuns > 0 && st.Runs >= a.MaxRuns {
			break
		}
		seed := RunSeed(a.Seed, a.Property+"/"+a.Sub, i)
		t := NewTape(seed)
		cfg.RunIndex = i
		if curF != nil {
			var b [16]byte
			binary.LittleEndian.PutUint64(b[:8], uint64(i))
			binary.LittleEndian.PutUint64(b[8:], seed)
			curF.WriteAt(b[:], 0)
		}
		st.Events = st.Events[:0]
		st.Dig, st.Uncontrolled = 0, false
		var prev *digestSnap
		if a.Digest {
			prev = snapDigest(st)
		}
		atomic.StoreUint64(&curSeed, seed)
		atomic.StoreInt64(&curRun, i)
		if a.AnnounceRuns {
			emit(&WorkerMsg{Type: "start", Run: i, Seed: seed})
		}
		atomic.StoreInt64(&curStart, time.Now().UnixNano())
		v, crash := SafeRun(e, t, cfg, st)
		atomic.StoreInt64(&curStart, 0)
		st.Runs++
		if a.Digest {
			emit(&WorkerMsg{Type: "digest", Run: i, Seed: seed, Dig: runDigest(st, prev, v)})
		}
		if crash != "" {
			emit(&WorkerMsg{Type: "crash", Run: i, Seed: seed, Detail: crash, Tape: t.Draws()})
			return 2
		}
		if v != nil {
			draws := v.Draws
			if draws == nil {
				draws = t.Draws()
			}
			origLen := len(draws)
			events := append([]string(nil), st.Events...)
			// shrink (bounded), keeping the violation class
			atomic.StoreInt64(&curStart, 0)
			scfg := *cfg
			scfg.Aux = v.Aux
			aux := v.Aux
			var sd []uint32
			var sa []int64
			var sv *Violation
			var sev []string
			if !a.NoShrink {
				sd, sa, sv, sev = Shrink(e, &scfg, draws, v, 60*time.Second)
			}
			if sv != nil {
				draws, aux, v, events = sd, sa, sv, sev
			}
			emit(&WorkerMsg{Type: "violation", Run: i, Seed: seed, Class: v.Class, Detail: v.Detail, Tape: draws, Aux: aux, Events: events, Shrunk: sv != nil, OrigLen: origLen})
			emit(&WorkerMsg{Type: "summary", Stats: statsMsg(st, start, a.Race)})
			return 1
		}
	}
	emit(&WorkerMsg{Type: "summary", Stats: statsMsg(st, start, a.Race)})
	return 0
}

func statsMsg(st *Stats, start time.Time, race bool) *StatsMsg {
	keys := st.DistinctKeys()
	if len(keys) > 300000 {
		keys = keys[:300000]
	}
	return &StatsMsg{Runs: st.Runs, Evals: st.Evals, Steps: st.Steps, Discarded: st.Discarded, Faults: st.Faults, Probes: st.Probes,
		Distinct: keys, DistinctW: st.DistinctWeights(keys), Samples: st.Samples, WallS: time.Since(start).Seconds(), Race: race}
}

// runDigest summarises everything observable about one run: the engine's explicit
// digest, the counter deltas and the event log. Two executions of the same seed
// must print identical digest lines.
func runDigest(st *Stats, prev *digestSnap, v *Violation) string {
	if st.Uncontrolled {
		return "uncontrolled (a select had several buffer-ready cases; Go's choice is not simulated)"
	}
	h := NewHash().Int(int(st.Dig)).Int(int(st.Evals - prev.evals)).Int(int(st.Steps - prev.steps)).Int(int(st.Discarded - prev.discarded))
	for mi, m := range []map[string]int64{st.Faults, st.Probes} {
		keys := make([]string, 0, len(m))
		for k := range m {
			keys = append(keys, k)
		}
		sort.Strings(keys)
		for _, k := range keys {
			if k == "goroutines_left_alive" {
				continue
			}
			if d := m[k] - prev.maps[mi][k]; d != 0 {
				h = h.Str(k).Int(int(d))
			}
		}
	}
	for _, e := range st.Events {
		h = h.Str(e)
	}
	if v != nil {
		h = h.Str(v.Class)
	}
	return fmt.Sprintf("%016x evals=%d steps=%d", uint64(h), st.Evals-prev.evals, st.Steps-prev.steps)
}

type digestSnap struct {
	evals, steps, discarded int64
	maps                    [2]map[string]int64
}

func snapDigest(st *Stats) *digestSnap {
	d := &digestSnap{evals: st.Evals, steps: st.Steps, discarded: st.Discarded}
	for i, m := range []map[string]int64{st.Faults, st.Probes} {
		d.maps[i] = make(map[string]int64, len(m))
		for k, v := range m {
			d.maps[i][k] = v
		}
	}
	return d
}
