package core

import (
	"fmt"
	"sort"
)

// Violation describes a property violation found by a run.
type Violation struct {
	Class  string `json:"class"`  // stable violation class (used to decide "same violation" when shrinking/replaying)
	Detail string `json:"detail"` // human-readable detail
	// Draws, when non-nil, is a tape that reproduces the violation more
	// directly than the tape of the run that found it (e.g. with the single
	// failing fault point selected instead of a full sweep).
	Draws []uint32 `json:"-"`
	// Aux, when non-nil, are engine-defined extra replay parameters (e.g. the
	// single fault point to inject instead of a full sweep). They are stored in
	// the replay file and handed back to the engine through Config.Aux.
	Aux []int64 `json:"aux,omitempty"`
}

func (v *Violation) String() string { return v.Class + ": " + v.Detail }

func Violationf(class, format string, args ...interface{}) *Violation {
	return &Violation{Class: class, Detail: fmt.Sprintf(format, args...)}
}

// Config is what an engine run may depend on besides the tape.
type Config struct {
	Property string
	Tier     string // quick | thorough
	Thorough bool
	Race     bool // running inside a -race binary
	// Disabled generator features (open known findings), by key.
	Disabled map[string]bool
	// Sub selects an engine sub-mode (e.g. exhaustive enumeration), "" = default.
	Sub string
	// RunIndex is the index of the run within its batch (enumerating sub-modes decode their case from it).
	RunIndex int64
	// Aux: extra replay parameters of a violation being replayed or shrunk (nil in exploration).
	Aux []int64
}

// Stats accumulates what the runs of one worker actually did.
type Stats struct {
	Runs      int64
	Evals     int64 // executions of the code under test
	Steps     int64 // simulated time: VM instruction dispatches / scheduler events / I/O ops
	Discarded int64
	Faults    map[string]int64 // faults that actually fired, by kind
	Probes    map[string]int64 // "this rare condition was hit" counters
	distinct  map[uint64]int32
	Samples   []interface{}
	Events    []string // event log of the current run (reset per run)
	Dig       uint64   // behaviour digest of the current run (determinism self-test)
	// Uncontrolled is set by an engine when the current run met nondeterminism the simulator does not
	// control (Go's choice among several buffer-ready select cases); such runs are left out of the
	// determinism comparison and reported with that caveat.
	Uncontrolled bool
	maxSample    int
}

func NewStats() *Stats {
	return &Stats{Faults: map[string]int64{}, Probes: map[string]int64{}, distinct: map[uint64]int32{}, maxSample: 3}
}

// D mixes a value that depends on the behaviour of the code under test into the digest.
func (s *Stats) D(x uint64) { s.Dig = (s.Dig ^ x) * 1099511628211 }

func (s *Stats) Fault(kind string)         { s.Faults[kind]++ }
func (s *Stats) FaultN(kind string, n int) { s.Faults[kind] += int64(n) }
func (s *Stats) Probe(name string)         { s.Probes[name]++ }
func (s *Stats) ProbeN(name string, n int) { s.Probes[name] += int64(n) }
func (s *Stats) Distinct(h uint64)         { s.DistinctW(h, 1) }

// DistinctW records a distinct case family identified by h that stands for w
// distinct non-trivial cases (e.g. a program with w distinct fault points).
func (s *Stats) DistinctW(h uint64, w int) {
	if _, ok := s.distinct[h]; ok || len(s.distinct) < 2_000_000 {
		if int32(w) > s.distinct[h] {
			s.distinct[h] = int32(w)
		}
	}
}
func (s *Stats) DistinctWeights(keys []uint64) []int32 {
	out := make([]int32, len(keys))
	for i, k := range keys {
		out[i] = s.distinct[k]
	}
	return out
}
func (s *Stats) DistinctCount() int { return len(s.distinct) }
func (s *Stats) DistinctKeys() []uint64 {
	out := make([]uint64, 0, len(s.distinct))
	for k := range s.distinct {
		out = append(out, k)
	}
	sort.Slice(out, func(i, j int) bool { return out[i] < out[j] })
	return out
}
func (s *Stats) Sample(x interface{}) {
	if len(s.Samples) < s.maxSample {
		s.Samples = append(s.Samples, x)
	}
}
func (s *Stats) WantSample() bool { return len(s.Samples) < s.maxSample }
func (s *Stats) Event(format string, args ...interface{}) {
	if len(s.Events) >= 400 {
		s.Events = append(s.Events[:0], s.Events[200:]...) // keep the most recent events
	}
	s.Events = append(s.Events, fmt.Sprintf(format, args...))
}

// Engine is one simulation engine. Run executes exactly one simulated run, a
// pure function of the tape (and the code under test).
type Engine interface {
	Name() string
	// Properties served.
	Properties() []string
	Run(t *Tape, cfg *Config, st *Stats) *Violation
}

// Describer is optionally implemented by engines to describe themselves in the
// evidence file.
type Describer interface {
	Level() string // exploration | fault_enumeration
	Rule() string  // how cases are generated and what makes one distinct / non-trivial
	RealComponents() []string
	StubComponents() []string
	Assumptions() []string
}

// KnownFinding is one entry of /verif/known_findings.txt.
type KnownFinding struct {
	Status   string // open | fixed
	Property string
	Key      string // generator feature / reproducer key (open), commit (fixed)
	Text     string
}

// Reproducer is optionally implemented by engines that have canonical
// reproducers for open known findings. It returns true if the finding with the
// given key still reproduces on the current tree.
type Reproducer interface {
	Reproduce(key string, cfg *Config) (known bool, reproduced bool, detail string)
}
