package core

import "time"

// Shrink minimises a failing tape while the same violation class persists.
// It is tape-based (Hypothesis style): delete blocks of draws, zero draws,
// lower draws. Generators map smaller draws to simpler constructs, so every
// candidate is again a well-formed program / schedule / fault plan.
func Shrink(e Engine, cfg *Config, draws []uint32, orig *Violation, budget time.Duration) ([]uint32, []int64, *Violation, []string) {
	deadline := time.Now().Add(budget)
	best := append([]uint32(nil), draws...)
	var bestV *Violation
	var bestEv []string

	try := func(c []uint32) bool {
		if time.Now().After(deadline) {
			return false
		}
		st := NewStats()
		v, crash := SafeRun(e, ReplayTape(c), cfg, st)
		if crash != "" || v == nil || v.Class != orig.Class {
			return false
		}
		best = append(best[:0:0], c...)
		bestV = v
		bestEv = append([]string(nil), st.Events...)
		return true
	}
	// First make sure the tape reproduces at all in replay mode.
	if !try(best) {
		return nil, nil, nil, nil
	}
	// trailing zeros are implied by an exhausted tape
	trim := func() {
		n := len(best)
		for n > 0 && best[n-1] == 0 {
			n--
		}
		best = best[:n]
	}
	trim()
	improved := true
	for improved && time.Now().Before(deadline) {
		improved = false
		// 1. delete blocks
		for _, sz := range []int{64, 32, 16, 8, 4, 2, 1} {
			for i := len(best) - sz; i >= 0; {
				if time.Now().After(deadline) {
					break
				}
				if i+sz > len(best) {
					i = len(best) - sz
					if i < 0 {
						break
					}
				}
				c := append(append([]uint32(nil), best[:i]...), best[i+sz:]...)
				if try(c) {
					improved = true
					trim()
					i -= sz
				} else {
					i--
				}
			}
		}
		// 2. zero, then lower draws
		for i := 0; i < len(best) && time.Now().Before(deadline); i++ {
			if best[i] == 0 {
				continue
			}
			c := append([]uint32(nil), best...)
			c[i] = 0
			if try(c) {
				improved = true
				continue
			}
			// binary descent toward the smallest value that still fails
			lo, hi := uint32(0), best[i] // lo fails to reproduce, hi reproduces
			for hi-lo > 1 && time.Now().Before(deadline) {
				mid := lo + (hi-lo)/2
				c := append([]uint32(nil), best...)
				c[i] = mid
				if i < len(best) && try(c) {
					hi = mid
					improved = true
				} else {
					lo = mid
				}
				if i >= len(best) {
					break
				}
			}
		}
		trim()
		// 3. lower the auxiliary replay parameters (all but the first, which names a kind)
		for i := 1; i < len(cfg.Aux) && time.Now().Before(deadline); i++ {
			lo, hi := int64(0), cfg.Aux[i]
			save := append([]int64(nil), cfg.Aux...)
			for hi-lo > 1 && time.Now().Before(deadline) {
				mid := lo + (hi-lo)/2
				cfg.Aux = append([]int64(nil), save...)
				cfg.Aux[i] = mid
				if try(best) {
					hi = mid
					save = append([]int64(nil), cfg.Aux...)
					improved = true
				} else {
					lo = mid
				}
			}
			cfg.Aux = save
		}
	}
	return best, cfg.Aux, bestV, bestEv
}
