package core

import (
	"bufio"
	"bytes"
	"encoding/binary"
	"encoding/json"
	"fmt"
	"io"
	"os"
	"os/exec"
	"path/filepath"
	"sort"
	"strconv"
	"strings"
	"sync"
	"syscall"
	"time"
)

// VerifDir is the directory that holds evidence/, replays/, known_findings.txt and corpus.json
// (the directory of the check script; /verif unless VERIF_DIR says otherwise).
var VerifDir = func() string {
	if d := os.Getenv("VERIF_DIR"); d != "" {
		return d
	}
	return "/verif"
}()

// ReplayFile is the on-disk format of a violation report.
type ReplayFile struct {
	Property  string    `json:"property"`
	Engine    string    `json:"engine"`
	Tier      string    `json:"tier"`
	Sub       string    `json:"sub,omitempty"`
	VerifSeed uint64    `json:"verif_seed"`
	Run       int64     `json:"run"`
	Seed      uint64    `json:"seed"`
	Tape      []uint32  `json:"tape"` // null: regenerate the draws from seed
	Aux       []int64   `json:"aux,omitempty"`
	Race      bool      `json:"race,omitempty"`
	Disabled  []string  `json:"disabled,omitempty"`
	Violation Violation `json:"violation"`
	Events    []string  `json:"events,omitempty"`
	Shrunk    bool      `json:"shrunk"`
	OrigLen   int       `json:"orig_tape_len,omitempty"`
	// History: the violation depends on process-level state of the code under test that earlier runs of the
	// same worker process left behind (e.g. a package-level pool); the replay re-executes that worker's run
	// sequence (worker Idx of Count, runs Idx, Idx+Count, ... up to Run) in a fresh process.
	History *HistoryReplay `json:"history,omitempty"`
}

// HistoryReplay identifies the run sequence of one worker process.
type HistoryReplay struct {
	Idx   int   `json:"worker_idx"`
	Count int   `json:"worker_count"`
	Runs  int64 `json:"runs"` // number of runs the worker executes, the last one being the violating run
}

// PropertySpec binds a property id to an engine and its budgets.
type PropertySpec struct {
	Property      string
	Engine        func() Engine
	QuickS        float64 // exploration budget in seconds (quick)
	ThoroughS     float64
	RaceFraction  float64 // fraction of workers that run the -race binary
	RunCapS       float64 // wall-clock cap per run
	HangViolation bool    // a run exceeding RunCapS is a violation of this property (else infrastructure)
	// CrashViolation: a worker process killed by the Go runtime (fatal error, stack exhaustion, unrecovered panic
	// in a goroutine of the code under test) while executing a run is a violation of this property ("never crashes
	// the process"); an engine panic that SafeRun recovered stays an infrastructure error.
	CrashViolation bool
	Subs           []SubSpec
	// KnownKeys lists the generator features that may be disabled by open known findings.
	KnownKeys []string
}

// SubSpec is an additional sub-mode run by the supervisor before the main exploration.
type SubSpec struct {
	Sub      string
	Thorough bool    // only in the thorough tier
	BudgetS  float64 // budget
	MaxRuns  int64   // per worker, 0 = unlimited
	Workers  int
}

func readKnown(path string) []KnownFinding {
	b, err := os.ReadFile(path)
	if err != nil {
		return nil
	}
	var out []KnownFinding
	for _, ln := range strings.Split(string(b), "\n") {
		ln = strings.TrimSpace(ln)
		if ln == "" || strings.HasPrefix(ln, "#") {
			continue
		}
		var kf KnownFinding
		switch {
		case strings.HasPrefix(ln, "open:"):
			kf.Status = "open"
			ln = strings.TrimSpace(ln[5:])
		case strings.HasPrefix(ln, "fixed:"):
			kf.Status = "fixed"
			ln = strings.TrimSpace(ln[6:])
		default:
			continue
		}
		fs := strings.Fields(ln)
		rest := []string{}
		for _, f := range fs {
			if strings.HasPrefix(f, "property=") && kf.Property == "" {
				kf.Property = f[9:]
			} else if strings.HasPrefix(f, "key=") && kf.Key == "" {
				kf.Key = f[4:]
			} else {
				rest = append(rest, f)
			}
		}
		kf.Text = strings.Join(rest, " ")
		out = append(out, kf)
	}
	return out
}

type superAgg struct {
	runs, evals, steps, discarded int64
	faults, probes                map[string]int64
	distinct                      map[uint64]int32
	samples                       []interface{}
	raceRuns                      int64
	workerWall                    float64
}

func (a *superAgg) distinctTotal() int64 {
	var n int64
	for _, w := range a.distinct {
		n += int64(w)
	}
	return n
}

func (a *superAgg) add(s *StatsMsg) {
	a.runs += s.Runs
	a.evals += s.Evals
	a.steps += s.Steps
	a.discarded += s.Discarded
	for k, v := range s.Faults {
		a.faults[k] += v
	}
	for k, v := range s.Probes {
		a.probes[k] += v
	}
	for i, h := range s.Distinct {
		w := int32(1)
		if i < len(s.DistinctW) {
			w = s.DistinctW[i]
		}
		if w > a.distinct[h] {
			a.distinct[h] = w
		}
	}
	if len(a.samples) < 4 {
		for _, x := range s.Samples {
			if len(a.samples) < 4 {
				a.samples = append(a.samples, x)
			}
		}
	}
	if s.Race {
		a.raceRuns += s.Runs
	}
	a.workerWall += s.WallS
}

type workerOutcome struct {
	idx       int
	race      bool
	violation *WorkerMsg
	crash     *WorkerMsg
	hang      *WorkerMsg
	lastStart *WorkerMsg
	summary   *StatsMsg
	exit      int
	stderr    string
	killed    bool
	memKilled bool
	curFile   string
	curRun    int64
	curSeed   uint64
	haveCur   bool
}

func selfPath() string {
	p, err := os.Executable()
	if err != nil {
		return os.Args[0]
	}
	return p
}

func rssBytes(pid int) int64 {
	b, err := os.ReadFile(fmt.Sprintf("/proc/%d/statm", pid))
	if err != nil {
		return 0
	}
	fs := strings.Fields(string(b))
	if len(fs) < 2 {
		return 0
	}
	n, _ := strconv.ParseInt(fs[1], 10, 64)
	return n * int64(os.Getpagesize())
}

func workerCmd(bin string, a *WorkerArgs) *exec.Cmd {
	b, _ := json.Marshal(a)
	cmd := exec.Command(bin, "-worker", string(b))
	// One P per worker: every engine executes one goroutine at a time (multistate parks all tasks but one), so
	// more Ps only add garbage-collector contention between workers; and with a single P the process-level
	// pools of the code under test (sync.Pool is per P) behave the same way when a run sequence is replayed.
	gmp := "GOMAXPROCS=1"
	if v := os.Getenv("VERIF_WORKER_GOMAXPROCS"); v != "" {
		gmp = "GOMAXPROCS=" + v
	}
	cmd.Env = append(os.Environ(), "GORACE=halt_on_error=1 exitcode=66 history_size=2", gmp)
	cmd.SysProcAttr = &syscall.SysProcAttr{Pdeathsig: syscall.SIGKILL}
	return cmd
}

// runWorkers runs one batch of workers and returns their outcomes.
func runWorkers(spec *PropertySpec, base WorkerArgs, workers int, raceWorkers int, stopOnViolation bool) []*workerOutcome {
	outs := make([]*workerOutcome, workers)
	var wg sync.WaitGroup
	var mu sync.Mutex
	var cmds []*exec.Cmd
	stop := make(chan struct{})
	var stopOnce sync.Once
	for i := 0; i < workers; i++ {
		a := base
		a.Idx = i
		a.Count = workers
		bin := selfPath()
		if i < raceWorkers {
			bin = selfPath() + "-race"
			a.Race = true
			a.AnnounceRuns = true
		}
		curFile := filepath.Join(os.TempDir(), fmt.Sprintf("luasim-cur-%d-%d", os.Getpid(), i))
		a.CurFile = curFile
		cmd := workerCmd(bin, &a)
		stdout, _ := cmd.StdoutPipe()
		var errb bytes.Buffer
		cmd.Stderr = &limitedWriter{w: &errb, n: 1 << 20}
		o := &workerOutcome{idx: i, race: a.Race, curFile: curFile}
		outs[i] = o
		if err := cmd.Start(); err != nil {
			o.exit = 2
			o.stderr = "start: " + err.Error()
			continue
		}
		mu.Lock()
		cmds = append(cmds, cmd)
		mu.Unlock()
		wg.Add(1)
		go func(cmd *exec.Cmd, o *workerOutcome, errb *bytes.Buffer) {
			defer wg.Done()
			done := make(chan struct{})
			go func() { // memory watchdog
				for {
					select {
					case <-done:
						return
					case <-stop:
						o.killed = true
						cmd.Process.Kill()
						return
					case <-time.After(500 * time.Millisecond):
						if rssBytes(cmd.Process.Pid) > 6<<30 {
							o.memKilled = true
							cmd.Process.Kill()
							return
						}
					}
				}
			}()
			rd := bufio.NewReaderSize(stdout, 1<<20)
			for {
				line, err := rd.ReadBytes('\n')
				if len(line) > 0 {
					var m WorkerMsg
					if json.Unmarshal(line, &m) == nil {
						switch m.Type {
						case "start":
							mm := m
							o.lastStart = &mm
						case "violation":
							mm := m
							o.violation = &mm
							if stopOnViolation {
								// let this worker finish its summary; stop the others
								go func() { time.Sleep(200 * time.Millisecond); stopOnce.Do(func() { close(stop) }) }()
							}
						case "crash":
							mm := m
							o.crash = &mm
						case "hang":
							mm := m
							o.hang = &mm
						case "summary":
							o.summary = m.Stats
						}
					}
				}
				if err != nil {
					break
				}
			}
			err := cmd.Wait()
			close(done)
			if b, rerr := os.ReadFile(o.curFile); rerr == nil && len(b) >= 16 {
				o.curRun = int64(binary.LittleEndian.Uint64(b[:8]))
				o.curSeed = binary.LittleEndian.Uint64(b[8:16])
				o.haveCur = true
			}
			os.Remove(o.curFile)
			if err != nil {
				if ee, ok := err.(*exec.ExitError); ok {
					o.exit = ee.ExitCode()
				} else {
					o.exit = 2
				}
			}
			o.stderr = errb.String()
		}(cmd, o, &errb)
	}
	wg.Wait()
	stopOnce.Do(func() { close(stop) })
	return outs
}

type limitedWriter struct {
	w io.Writer
	n int
}

func (l *limitedWriter) Write(p []byte) (int, error) {
	if l.n <= 0 {
		return len(p), nil
	}
	q := p
	if len(q) > l.n {
		q = q[:l.n]
	}
	l.n -= len(q)
	l.w.Write(q)
	return len(p), nil
}

// Supervise runs a check (quick or thorough) for one property. It returns the
// process exit code: 0 held, 1 violation, 2 infrastructure trouble.
func Supervise(spec *PropertySpec, tier string, verifSeed uint64, budgetOverride float64, workers int) int {
	start := time.Now()
	eng := spec.Engine()
	prop := spec.Property
	evidencePath := filepath.Join(VerifDir, "evidence", prop+".json")
	if d := os.Getenv("VERIF_EVIDENCE_DIR"); d != "" {
		// a run against another tree (VERIF_REPO) must not overwrite the evidence about /repo
		evidencePath = filepath.Join(d, prop+".json")
	}
	os.MkdirAll(filepath.Dir(evidencePath), 0o755)
	os.MkdirAll(filepath.Join(VerifDir, "replays"), 0o755)

	// Known findings: run the reproducer of each open entry of this property.
	known := readKnown(filepath.Join(VerifDir, "known_findings.txt"))
	var disabled []string
	var knownSeen []string
	cfg0 := &Config{Property: prop, Tier: tier, Thorough: tier == "thorough", Disabled: map[string]bool{}}
	for _, kf := range known {
		if kf.Status != "open" || kf.Property != prop {
			continue
		}
		rp, ok := eng.(Reproducer)
		if !ok {
			fmt.Printf("INFRA: known finding %s listed but engine %s has no reproducer\n", kf.Key, eng.Name())
			return 2
		}
		isKnown, reproduced, detail := rp.Reproduce(kf.Key, cfg0)
		if !isKnown {
			fmt.Printf("INFRA: known finding key %q not understood by engine %s\n", kf.Key, eng.Name())
			return 2
		}
		disabled = append(disabled, kf.Key)
		if reproduced {
			fmt.Printf("KNOWN-FINDING: property=%s %s [%s] (%s)\n", prop, kf.Text, kf.Key, detail)
			knownSeen = append(knownSeen, kf.Key)
		} else {
			fmt.Printf("note: open known finding %s no longer reproduces (%s); its generator feature stays off until the entry is removed\n", kf.Key, detail)
		}
	}
	sort.Strings(disabled)

	budget := spec.QuickS
	if tier == "thorough" {
		budget = spec.ThoroughS
	}
	if budgetOverride > 0 {
		budget = budgetOverride
	}
	raceWorkers := int(float64(workers)*spec.RaceFraction + 0.5)
	if spec.RaceFraction > 0 && raceWorkers == 0 {
		raceWorkers = 1
	}
	if raceWorkers > 0 {
		if _, err := os.Stat(selfPath() + "-race"); err != nil {
			fmt.Printf("INFRA: race binary missing: %v\n", err)
			return 2
		}
	}
	runCap := spec.RunCapS
	if runCap == 0 {
		runCap = 120
	}

	agg := &superAgg{faults: map[string]int64{}, probes: map[string]int64{}, distinct: map[uint64]int32{}}
	type batch struct {
		sub     string
		budget  float64
		maxRuns int64
		workers int
		race    int
	}
	var batches []batch
	for _, s := range spec.Subs {
		if s.Thorough && tier != "thorough" {
			continue
		}
		w := s.Workers
		if w == 0 || w > workers {
			w = workers
		}
		batches = append(batches, batch{s.Sub, s.BudgetS, s.MaxRuns, w, 0})
	}
	batches = append(batches, batch{"", budget, 0, workers, raceWorkers})

	var viol *WorkerMsg
	var violSub string
	var violRace bool
	violIdx, violCount := 0, 1
	infra := ""
	subsDone := map[string]int64{}
	exit := 0
	replayPath := ""
	exploreSeed := verifSeed
	// A violation that cannot be replayed (it depended on something the simulator does not control, e.g. when the
	// garbage collector empties a pool inside the code under test) is not reported; the exploration is repeated
	// with other run seeds, twice at most, before the check gives up with exit 2.
	for attempt := 0; attempt < 3; attempt++ {
		viol, infra, exit, replayPath = nil, "", 0, ""
		for _, b := range batches {
			base := WorkerArgs{Property: prop, Tier: tier, Seed: exploreSeed, BudgetS: b.budget, Disabled: disabled, Sub: b.sub, RunCapS: runCap, MaxRuns: b.maxRuns}
			outs := runWorkers(spec, base, b.workers, b.race, true)
			for _, o := range outs {
				if o.summary != nil {
					agg.add(o.summary)
					subsDone[b.sub] += o.summary.Runs
				}
				switch {
				case o.violation != nil:
					if viol == nil {
						viol, violSub, violRace = o.violation, b.sub, o.race
						violIdx, violCount = o.idx, b.workers
					}
				case o.hang != nil:
					if spec.HangViolation {
						if viol == nil {
							h := o.hang
							viol = &WorkerMsg{Type: "violation", Run: h.Run, Seed: h.Seed, Class: "hang", Detail: h.Detail}
							violSub, violRace = b.sub, o.race
						}
					} else if infra == "" {
						infra = fmt.Sprintf("worker %d watchdog: %s (seed %d)", o.idx, o.hang.Detail, o.hang.Seed)
					}
				case o.crash != nil:
					if infra == "" {
						infra = fmt.Sprintf("worker %d crashed: %s", o.idx, o.crash.Detail)
					}
				case o.memKilled:
					if infra == "" {
						infra = fmt.Sprintf("worker %d exceeded the memory cap while executing run %d (run seed %d, race binary: %v)", o.idx, o.curRun, o.curSeed, o.race)
					}
				case o.exit == 66 && o.race:
					// the race detector halted the worker: a data race under a deterministic schedule
					if viol == nil {
						ls := o.lastStart
						if ls == nil {
							ls = &WorkerMsg{}
						}
						viol = &WorkerMsg{Type: "violation", Run: ls.Run, Seed: ls.Seed, Class: "datarace", Detail: firstLines(o.stderr, 60)}
						violSub, violRace = b.sub, true
					}
				case o.exit != 0 && !o.killed && o.summary == nil && spec.CrashViolation && o.haveCur && runtimeCrash(o.stderr):
					// the Go runtime killed the worker while it was executing a run
					if viol == nil {
						viol = &WorkerMsg{Type: "violation", Run: o.curRun, Seed: o.curSeed, Class: "process-crash", Detail: "the process was killed by the Go runtime while executing this run:\n" + firstLines(o.stderr, 40)}
						violSub, violRace = b.sub, o.race
					}
				case o.exit != 0 && !o.killed && o.summary == nil:
					if infra == "" {
						infra = fmt.Sprintf("worker %d exited with %d: %s", o.idx, o.exit, firstLines(o.stderr, 30))
					}
				}
			}
			if viol != nil || infra != "" {
				break
			}
		}

		unreproduced := false
		if viol != nil {
			rf := &ReplayFile{Property: prop, Engine: eng.Name(), Tier: tier, Sub: violSub, VerifSeed: exploreSeed, Run: viol.Run, Seed: viol.Seed, Tape: viol.Tape, Aux: viol.Aux,
				Race: violRace, Disabled: disabled, Violation: Violation{Class: viol.Class, Detail: viol.Detail}, Events: viol.Events, Shrunk: viol.Shrunk, OrigLen: viol.OrigLen}
			replayPath = filepath.Join(VerifDir, "replays", fmt.Sprintf("%s-%d.json", prop, viol.Seed))
			b, _ := json.MarshalIndent(rf, "", " ")
			os.WriteFile(replayPath, b, 0o644)
			// Re-execute in a fresh process; it must fail the same way.
			code, m, msg := ReplayOnce(spec, rf)
			switch {
			case code == 1 && m != nil && m.Class == rf.Violation.Class:
				if !sameEvents(m.Events, rf.Events) {
					fmt.Printf("note: replay reproduced the violation class but its event log differs (residual nondeterminism, see DESIGN.md)\n")
				}
				exit = 1
			default:
				// retry a few times before declaring the machinery non-deterministic
				ok := false
				for i := 0; i < 4 && !ok; i++ {
					code, m, msg = ReplayOnce(spec, rf)
					ok = code == 1 && m != nil && m.Class == rf.Violation.Class
				}
				if !ok && viol.Run >= int64(violIdx) && violCount > 0 {
					// the single run is clean in a fresh process: does the violation need what the earlier runs of the
					// same worker process left behind in process-level state of the code under test?
					rf.History = &HistoryReplay{Idx: violIdx, Count: violCount, Runs: (viol.Run-int64(violIdx))/int64(violCount) + 1}
					for try := 0; try < 3; try++ {
						// the pools involved (sync.Pool) are emptied by the garbage collector at moments the
						// simulator does not control: give the sequence more than one chance
						if code, m, msg = ReplayOnce(spec, rf); code == 1 && m != nil {
							break
						}
					}
					if code == 1 && m != nil {
						ok = true
						if m.Class != rf.Violation.Class {
							// the sequence fails in a fresh process too, at the same or an earlier run, with another symptom
							fmt.Printf("note: the re-executed run sequence fails with class %s (first seen: %s)\n", m.Class, rf.Violation.Class)
							rf.Violation = Violation{Class: m.Class, Detail: m.Detail}
							viol.Class, viol.Detail = m.Class, m.Detail
						}
						fmt.Printf("note: the violation does not occur when run %d is executed alone in a fresh process; it reproduces when the %d runs that worker %d/%d executed before it are executed first (state carried across runs inside the code under test); the replay file re-executes that sequence\n", viol.Run, rf.History.Runs-1, violIdx, violCount)
						b, _ := json.MarshalIndent(rf, "", " ")
						os.WriteFile(replayPath, b, 0o644)
					} else {
						rf.History = nil
					}
				}
				if ok {
					if rf.History == nil {
						fmt.Printf("note: violation replayed only on a retry (flaky replay)\n")
					}
					exit = 1
				} else {
					infra = fmt.Sprintf("violation %q found (replay file %s) but it did not reproduce in a fresh process: %s", rf.Violation.Class, replayPath, msg)
					unreproduced = true
				}
			}
		}
		if !unreproduced || attempt == 2 {
			break
		}
		fmt.Printf("note: %s; exploring again with other run seeds (attempt %d of 3)\n", infra, attempt+2)
		exploreSeed = verifSeed + uint64(attempt+1)*1000003
	}
	if infra != "" && exit == 0 {
		exit = 2
	}

	// Evidence.
	wall := time.Since(start).Seconds()
	level := "exploration"
	rule := ""
	var realC, stubC, assume []string
	if d, ok := eng.(Describer); ok {
		level, rule, realC, stubC, assume = d.Level(), d.Rule(), d.RealComponents(), d.StubComponents(), d.Assumptions()
	}
	zeroProbes := []string{}
	for k, v := range agg.probes {
		if v == 0 {
			zeroProbes = append(zeroProbes, k)
		}
	}
	sort.Strings(zeroProbes)
	nviol := 0
	if exit == 1 {
		nviol = 1
	}
	samples := agg.samples
	if len(samples) == 0 {
		samples = []interface{}{"(no sample recorded)"}
	}
	cov := map[string]interface{}{
		"evaluations":          agg.evals,
		"distinct_nontrivial":  agg.distinctTotal(),
		"rule":                 rule,
		"samples":              samples,
		"runs":                 agg.runs,
		"runs_per_hour":        int64(float64(agg.runs) / wall * 3600),
		"evaluations_per_hour": int64(float64(agg.evals) / wall * 3600),
		"verif_seed":           verifSeed,
		"seeds":                fmt.Sprintf("run i uses seed Mix(VERIF_SEED=%d, property, i) for i in [0,%d)", verifSeed, agg.runs),
		"sim_steps":            agg.steps,
		"sim_time_note":        "simulated time = VM instruction dispatches / scheduler events / I/O operations, no wall clock is read by the code under test",
		"fault_counts":         agg.faults,
		"context_probes":       agg.probes,
		"zero_probes":          zeroProbes,
		"race_runs":            agg.raceRuns,
		"components":           map[string]interface{}{"real": realC, "stub": stubC},
		"known_findings_seen":  knownSeen,
		"disabled_features":    disabled,
		"discarded_runs":       agg.discarded,
		"sub_mode_runs":        subsDone,
		"workers":              workers,
		"worker_cpu_s":         agg.workerWall,
	}
	ev := map[string]interface{}{
		"property_id": prop,
		"tier":        tier,
		"seed":        verifSeed,
		"level":       level,
		"coverage":    cov,
		"assumptions": assume,
		"wall_s":      wall,
		"violations":  nviol,
	}
	if infra != "" {
		ev["infrastructure_error"] = infra
	}
	b, _ := json.MarshalIndent(ev, "", " ")
	os.WriteFile(evidencePath, b, 0o644)

	fmt.Printf("%s %s: runs=%d evaluations=%d distinct=%d sim_steps=%d wall=%.1fs faults=%s\n", prop, tier, agg.runs, agg.evals, agg.distinctTotal(), agg.steps, wall, fmtMap(agg.faults))
	fmt.Printf("%s probes=%s\n", prop, fmtMap(agg.probes))
	for _, z := range zeroProbes {
		fmt.Printf("warning: probe %s stayed at zero\n", z)
	}
	if exit == 1 {
		fmt.Printf("violation class=%s detail=%s\n", viol.Class, firstLines(viol.Detail, 40))
		fmt.Printf("VIOLATION property=%s replay=%s\n", prop, replayPath)
	} else if exit == 2 {
		fmt.Printf("INFRA: %s\n", infra)
	}
	return exit
}

// runtimeCrash: the stderr of a dead worker shows a Go runtime crash (not an exit the worker chose).
func runtimeCrash(stderr string) bool {
	return strings.Contains(stderr, "fatal error:") || strings.Contains(stderr, "\npanic: ") || strings.HasPrefix(stderr, "panic: ") || strings.Contains(stderr, "unexpected signal") || strings.Contains(stderr, "goroutine stack exceeds")
}

func sameEvents(a, b []string) bool {
	if len(a) != len(b) {
		return false
	}
	for i := range a {
		if a[i] != b[i] {
			return false
		}
	}
	return true
}

func fmtMap(m map[string]int64) string {
	keys := make([]string, 0, len(m))
	for k := range m {
		keys = append(keys, k)
	}
	sort.Strings(keys)
	var sb strings.Builder
	sb.WriteByte('{')
	for i, k := range keys {
		if i > 0 {
			sb.WriteByte(' ')
		}
		fmt.Fprintf(&sb, "%s:%d", k, m[k])
	}
	sb.WriteByte('}')
	return sb.String()
}

func firstLines(s string, n int) string {
	ls := strings.Split(s, "\n")
	if len(ls) > n {
		ls = append(ls[:n], "...")
	}
	return strings.Join(ls, "\n")
}

// ReplayOnce re-executes a replay file in a fresh worker process.
func ReplayOnce(spec *PropertySpec, rf *ReplayFile) (int, *WorkerMsg, string) {
	a := WorkerArgs{Property: rf.Property, Tier: rf.Tier, Seed: rf.VerifSeed, Replay: true, ReplayTape: rf.Tape, ReplaySeed: rf.Seed, ReplayAux: rf.Aux, Disabled: rf.Disabled, Sub: rf.Sub,
		RunCapS: spec.RunCapS, Race: rf.Race, AnnounceRuns: rf.Race}
	if h := rf.History; h != nil {
		a.Replay, a.ReplayTape, a.ReplayAux = false, nil, nil
		a.Idx, a.Count, a.MaxRuns, a.BudgetS, a.NoShrink = h.Idx, h.Count, h.Runs, 3600, true
	}
	if a.RunCapS == 0 {
		a.RunCapS = 120
	}
	bin := selfPath()
	if rf.Race {
		bin += "-race"
	}
	cmd := workerCmd(bin, &a)
	var outb, errb bytes.Buffer
	cmd.Stdout = &outb
	cmd.Stderr = &limitedWriter{w: &errb, n: 1 << 20}
	if serr := cmd.Start(); serr != nil {
		return 2, nil, serr.Error()
	}
	done := make(chan struct{})
	memKilled := false
	go func() { // memory watchdog, as for exploring workers
		for {
			select {
			case <-done:
				return
			case <-time.After(500 * time.Millisecond):
				if rssBytes(cmd.Process.Pid) > 6<<30 {
					memKilled = true
					cmd.Process.Kill()
					return
				}
			}
		}
	}()
	err := cmd.Wait()
	close(done)
	if memKilled {
		return 2, nil, "the replay exceeded the memory cap"
	}
	code := 0
	if err != nil {
		if ee, ok := err.(*exec.ExitError); ok {
			code = ee.ExitCode()
		} else {
			return 2, nil, err.Error()
		}
	}
	var last *WorkerMsg
	for _, ln := range bytes.Split(outb.Bytes(), []byte("\n")) {
		var m WorkerMsg
		if len(ln) > 0 && json.Unmarshal(ln, &m) == nil {
			if m.Type == "violation" || m.Type == "hang" || m.Type == "crash" {
				mm := m
				last = &mm
			}
		}
	}
	if code != 0 && last == nil && rf.Violation.Class == "process-crash" && runtimeCrash(errb.String()) {
		return 1, &WorkerMsg{Type: "violation", Class: "process-crash", Detail: firstLines(errb.String(), 40), Events: rf.Events}, ""
	}
	if code == 66 && rf.Race {
		return 1, &WorkerMsg{Type: "violation", Class: "datarace", Detail: firstLines(errb.String(), 60), Events: rf.Events}, ""
	}
	if last != nil && last.Type == "hang" && spec.HangViolation {
		return 1, &WorkerMsg{Type: "violation", Class: "hang", Detail: last.Detail, Events: rf.Events}, ""
	}
	if last != nil && last.Type == "violation" {
		return 1, last, ""
	}
	msg := fmt.Sprintf("exit=%d", code)
	if last != nil {
		msg += " " + last.Type + ": " + firstLines(last.Detail, 10)
	}
	if errb.Len() > 0 {
		msg += " stderr: " + firstLines(errb.String(), 10)
	}
	if code == 0 {
		return 0, nil, msg
	}
	return 2, last, msg
}

// ReplayMain implements `check <prop> --replay FILE`.
func ReplayMain(spec *PropertySpec, path string) int {
	b, err := os.ReadFile(path)
	if err != nil {
		fmt.Printf("INFRA: %v\n", err)
		return 2
	}
	var rf ReplayFile
	if err := json.Unmarshal(b, &rf); err != nil {
		fmt.Printf("INFRA: %v\n", err)
		return 2
	}
	if rf.Race {
		if _, err := os.Stat(selfPath() + "-race"); err != nil {
			fmt.Printf("INFRA: race binary missing: %v\n", err)
			return 2
		}
	}
	code, m, msg := ReplayOnce(spec, &rf)
	switch code {
	case 1:
		fmt.Printf("replayed: class=%s\n%s\n", m.Class, firstLines(m.Detail, 60))
		for _, e := range m.Events {
			fmt.Println("  event:", e)
		}
		if m.Class == rf.Violation.Class {
			fmt.Printf("VIOLATION property=%s replay=%s\n", rf.Property, path)
			return 1
		}
		fmt.Printf("replay produced a different violation class (%s, recorded %s)\n", m.Class, rf.Violation.Class)
		fmt.Printf("VIOLATION property=%s replay=%s\n", rf.Property, path)
		return 1
	case 0:
		fmt.Printf("replay did not reproduce the violation (property holds on this tape): %s\n", msg)
		return 0
	default:
		fmt.Printf("INFRA: replay failed: %s\n", msg)
		return 2
	}
}
