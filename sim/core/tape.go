// Package core holds the parts shared by every simulation engine: the choice
// tape (the single source of every decision of a run), result types, the
// supervisor/worker process structure, shrinking, replay and evidence writing.
package core

// SplitMix64 is the only PRNG used anywhere in the simulator.
type SplitMix64 struct{ s uint64 }

func NewSplitMix64(seed uint64) *SplitMix64 { return &SplitMix64{s: seed} }

func (r *SplitMix64) Next() uint64 {
	r.s += 0x9e3779b97f4a7c15
	z := r.s
	z = (z ^ (z >> 30)) * 0xbf58476d1ce4e5b9
	z = (z ^ (z >> 27)) * 0x94d049bb133111eb
	return z ^ (z >> 31)
}

// Mix derives an independent seed from a seed and a stream of integers.
func Mix(seed uint64, xs ...uint64) uint64 {
	r := NewSplitMix64(seed)
	h := r.Next()
	for _, x := range xs {
		r2 := NewSplitMix64(h ^ (x+1)*0x9e3779b97f4a7c15)
		h = r2.Next()
	}
	return h
}

// Tape is the choice tape. Every decision of a run is an integer drawn through
// Choose in a fixed order. In exploration mode the draws come from the PRNG and
// are recorded; in replay mode they come from the recorded sequence (an
// exhausted tape yields 0). A run is therefore a pure function of (tape, code).
type Tape struct {
	rec    []uint32
	pos    int
	replay bool
	rng    *SplitMix64
	Seed   uint64
	// Overrun counts draws made past the end of a replayed tape.
	Overrun int
}

// NewTape returns a recording tape seeded with seed.
func NewTape(seed uint64) *Tape {
	return &Tape{rng: NewSplitMix64(seed), Seed: seed}
}

// ReplayTape returns a tape that replays the given draws.
func ReplayTape(draws []uint32) *Tape {
	cp := make([]uint32, len(draws))
	copy(cp, draws)
	return &Tape{rec: cp, replay: true}
}

// Choose returns an integer in [0,n). n<=1 consumes one draw and returns 0, so
// that the tape layout does not depend on data-dependent bounds being 1.
func (t *Tape) Choose(n int) int {
	if n <= 0 {
		n = 1
	}
	if t.replay {
		if t.pos >= len(t.rec) {
			t.pos++
			t.Overrun++
			return 0
		}
		v := int(t.rec[t.pos])
		t.pos++
		if v >= n {
			v = v % n
		}
		return v
	}
	v := int(t.rng.Next() % uint64(n))
	t.rec = append(t.rec, uint32(v))
	t.pos++
	return v
}

// Force records a fixed value in exploration mode (no PRNG draw); in replay
// mode it behaves like Choose(n), so that a replay file may override it.
func (t *Tape) Force(v, n int) int {
	if t.replay {
		return t.Choose(n)
	}
	t.rec = append(t.rec, uint32(v))
	t.pos++
	return v
}

// Range returns an integer in [lo,hi].
func (t *Tape) Range(lo, hi int) int {
	if hi < lo {
		hi = lo
	}
	return lo + t.Choose(hi-lo+1)
}

// Bool draws a boolean (false is the simple value).
func (t *Tape) Bool() bool { return t.Choose(2) == 1 }

// Chance returns true with probability about num/den (false is simple).
func (t *Tape) Chance(num, den int) bool { return t.Choose(den) >= den-num }

// Weighted draws an index with the given weights (index 0 is the simple one).
func (t *Tape) Weighted(w []int) int {
	tot := 0
	for _, x := range w {
		tot += x
	}
	if tot <= 0 {
		t.Choose(1)
		return 0
	}
	v := t.Choose(tot)
	for i, x := range w {
		if v < x {
			return i
		}
		v -= x
	}
	return len(w) - 1
}

// Pos is the number of draws made so far.
func (t *Tape) Pos() int { return t.pos }

// Draws returns a copy of the recorded draws (valid for recording tapes; for
// replay tapes it returns the source sequence).
func (t *Tape) Draws() []uint32 {
	cp := make([]uint32, len(t.rec))
	copy(cp, t.rec)
	return cp
}

// Prefix returns a copy of the first n recorded draws.
func (t *Tape) Prefix(n int) []uint32 {
	if n > len(t.rec) {
		n = len(t.rec)
	}
	cp := make([]uint32, n)
	copy(cp, t.rec[:n])
	return cp
}

// FNV-1a hashing helpers used for distinctness measures and trace hashes.
const fnvOff = 14695981039346656037
const fnvPrime = 1099511628211

type Hash uint64

func NewHash() Hash { return fnvOff }
func (h Hash) Byte(b byte) Hash {
	return (h ^ Hash(b)) * fnvPrime
}
func (h Hash) Str(s string) Hash {
	for i := 0; i < len(s); i++ {
		h = (h ^ Hash(s[i])) * fnvPrime
	}
	return (h ^ 0xff) * fnvPrime
}
func (h Hash) Int(x int) Hash {
	u := uint64(x)
	for i := 0; i < 8; i++ {
		h = (h ^ Hash(u&0xff)) * fnvPrime
		u >>= 8
	}
	return h
}
func HashStrings(ss []string) uint64 {
	h := NewHash()
	for _, s := range ss {
		h = h.Str(s)
	}
	return uint64(h)
}
