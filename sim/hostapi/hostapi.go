// Package hostapi is the VM-side harness shared by the engines: it creates
// states, registers the observing host functions (emit, snap, clobber, ...),
// drives the per-instruction step hook (the simulator's clock and universal
// fault-injection point), supplies the simulated context, and renders the trace
// in the canonical form the reference model also produces.
package hostapi

import (
	"context"
	"errors"
	"fmt"
	"os"
	"runtime/debug"
	"strings"
	"sync"
	"time"

	lua "github.com/yuin/gopher-lua"
	"github.com/yuin/gopher-lua/parse"

	"luasim/ir"
	"luasim/model"
)

// VM-side fault kinds (a refinement of the model's kinds).
const (
	VNone           = iota
	VRaise          // step hook: L.RaiseError at instruction boundary k
	VCancel         // step hook: fire the SimContext at instruction boundary k (sticky)
	VGoPanicString  // host call h: panic("...")
	VGoPanicError   // host call h: panic(error)
	VGoPanicRuntime // host call h: real nil-pointer dereference
	VRaiseError     // host call h: L.RaiseError
	VErrorTable     // host call h: L.Error(table, 1)
	VErrorNumber    // host call h: L.Error(7777, 1)
	VErrorFalse     // host call h: L.Error(false, 1)
	VErrorNil       // host call h: L.Error(nil, 1)
	VKinds
)

var VKindNames = []string{"none", "raise@k", "cancel@k", "gopanic-string@h", "gopanic-error@h", "gopanic-runtime@h", "raiseerror@h", "error-table@h", "error-number@h", "error-false@h", "error-nil@h"}

// ModelKind maps a VM fault kind to the model's fault kind.
func ModelKind(v int) int {
	switch v {
	case VRaise:
		return model.FaultRaise
	case VCancel:
		return model.FaultCancel
	case VGoPanicString, VGoPanicError, VGoPanicRuntime, VRaiseError:
		return model.FaultHostString
	case VErrorTable:
		return model.FaultHostTable
	case VErrorNumber:
		return model.FaultHostNumber
	case VErrorFalse:
		return model.FaultHostFalse
	case VErrorNil:
		return model.FaultHostNil
	}
	return model.FaultNone
}

func IsHostKind(v int) bool { return v >= VGoPanicString }

// SimContext is the simulated context.Context: the simulator decides the
// instant at which it becomes done. It implements AfterFunc so that child
// contexts derived by context.WithCancel are cancelled synchronously (no
// goroutine, no real time).
type SimContext struct {
	mu     sync.Mutex
	done   chan struct{}
	fired  bool
	reason error
	after  []func()
}

func NewSimContext() *SimContext { return &SimContext{done: make(chan struct{})} }

func (c *SimContext) Deadline() (time.Time, bool) { return time.Time{}, false }
func (c *SimContext) Done() <-chan struct{}       { return c.done }
func (c *SimContext) Err() error {
	c.mu.Lock()
	defer c.mu.Unlock()
	if c.fired {
		return c.reason
	}
	return nil
}
func (c *SimContext) Value(key interface{}) interface{} { return nil }

// AfterFunc is the hook context.WithCancel uses (Go 1.21+) to propagate
// cancellation from a custom parent without starting a goroutine.
func (c *SimContext) AfterFunc(f func()) func() bool {
	c.mu.Lock()
	defer c.mu.Unlock()
	if c.fired {
		go f()
		return func() bool { return false }
	}
	idx := len(c.after)
	c.after = append(c.after, f)
	return func() bool {
		c.mu.Lock()
		defer c.mu.Unlock()
		if c.fired || c.after[idx] == nil {
			return false
		}
		c.after[idx] = nil
		return true
	}
}

// CancelReason is the text every cancellation error must carry.
const CancelReason = "SIMCANCEL: context cancelled by the simulator"

// Fire makes the context done. Child contexts are cancelled before Fire returns.
func (c *SimContext) Fire() {
	c.mu.Lock()
	if c.fired {
		c.mu.Unlock()
		return
	}
	c.fired = true
	c.reason = errors.New(CancelReason)
	close(c.done)
	fs := c.after
	c.after = nil
	c.mu.Unlock()
	for _, f := range fs {
		if f != nil {
			f()
		}
	}
}

func (c *SimContext) Fired() bool {
	c.mu.Lock()
	defer c.mu.Unlock()
	return c.fired
}

var _ context.Context = (*SimContext)(nil)

// SnapRec is one structural snapshot taken by the snap host function.
type SnapRec struct {
	Thread   *lua.LState
	Depth    int // number of call frames of the thread, excluding snap's own frame
	CallerLB int // LocalBase of the calling Lua frame
	HasErrFn bool
}

type runawayPanic struct{}

// Host is the harness state attached to one LState.
type Host struct {
	lateAttach          bool
	threadCancel        bool
	keptErr             *lua.ApiError
	keptObj             lua.LValue
	keptText            string
	keepOldContextAlive bool
	// Source: the program text, for entry style 6 (DoString)
	Source        string
	goRuntimeSeen bool
	reattachAt    int64
	L             *lua.LState
	Main          *lua.LState // the main state when L is a thread created from it (OnThread)
	Ctx           *SimContext
	Trace         []string
	// EmitStep[i] is the global step index at which Trace[i] was appended.
	EmitStep []int64
	ids      map[lua.LValue]int
	nextID   [4]int

	Steps      int64 // verifStep calls (instruction boundaries) so far, all threads
	Dispatches int64
	HostCalls  int64
	MaxSteps   int64
	Runaway    bool
	Kind       int
	At         int64 // step index (VRaise/VCancel) or host call index (host kinds)
	Fired      bool
	FiredStep  int64
	// Kind2/At2: a second fault, which fires only after the first one has (At2 is a step or host call index counted
	// from the start of the run, like At)
	Kind2             int
	At2               int64
	Fired2            bool
	FiredDepth        int   // frame count over the running thread and its resume chain at the instant of firing
	StepsAfter        int64 // verifStep calls after the fire (cancellation)
	DispAfter         int64 // dispatches after the fire (cancellation)
	FiredLine         int
	Snaps             []SnapRec
	Violations        []string // structural violations noticed by host functions
	MaxDepth          int
	MaxThreadDepth    int
	MaxTop            int
	TrackLimits       bool
	NilDerefNormalize bool
	// Entry selects the Go-side protected entry point RunProto uses (0 PCall MultRet, 1 PCall NRet 0, 2 PCall NRet 2,
	// 3 CallByParam NRet 1, 4 CallByParam with a Go handler, 5 PCall with a Go handler); EntryJunk values are pushed first.
	Entry      int
	EntryJunk  int
	Reattached int
	// ReattachStep: the step count at the (last) reattach() call
	ReattachStep int64
	// ExtraStep, when set, is called at every instruction boundary after the harness's own bookkeeping (scheduler pre-emption point).
	ExtraStep func(L *lua.LState)
}

// Options for NewHost.
type Options struct {
	LuaOptions  lua.Options
	WithContext bool
	MaxSteps    int64
	Kind        int
	At          int64
	TrackLimits bool
	// OnThread runs the program on a thread created with NewThread from the
	// (context-less) main state; the context, if any, is attached to that thread.
	OnThread bool
	// MainContext (with OnThread): the main state has a context of its own, which is never done; the
	// thread's context replaces the one it inherited from the main state.
	MainContext bool
	// Bare: nothing is called on the state before the program runs (the libraries are opened by invoking their
	// open functions directly, not through L.Call), so the program's entry is the first call ever made on it.
	Bare bool
	// ReattachAtHostCall: at the n-th host call (if it is made by the main thread) the host replaces the attached
	// context by a fresh one, as a host function that calls L.SetContext in mid-run would; the simulator then
	// fires the new one.
	ReattachAtHostCall int64
	// BackgroundFirst: the state starts under context.Background() (whose Done channel is nil); the program's
	// first statement must be reattach(), which attaches the simulated context in mid-run.
	BackgroundFirst bool
	// NoContextFirst: the state starts without any context; the program's first statement, reattach(), attaches the
	// simulated one in mid-run (the loop that is running the program was entered before there was a context)
	NoContextFirst bool
	// ThreadCancelFunc (with OnThread, MainContext and WithContext): no context is attached to the thread; it keeps
	// the child context NewThread derived for it, and the simulated cancellation calls the cancel function
	// NewThread returned. The reason such a context gives is context.Canceled.
	ThreadCancelFunc bool
}

func defaultLuaOptions() lua.Options {
	return lua.Options{CallStackSize: 120, RegistrySize: 1024, RegistryMaxSize: 1024 * 80, RegistryGrowStep: 32, SkipOpenLibs: true}
}

// SmallOptions are the cheap default state options used by sweeps.
func SmallOptions() lua.Options { return defaultLuaOptions() }

func openLibs(L *lua.LState) {
	for _, pair := range []struct {
		n string
		f lua.LGFunction
	}{
		{lua.LoadLibName, lua.OpenPackage},
		{lua.BaseLibName, lua.OpenBase},
		{lua.TabLibName, lua.OpenTable},
		{lua.StringLibName, lua.OpenString},
		{lua.CoroutineLibName, lua.OpenCoroutine},
		{lua.DebugLibName, lua.OpenDebug},
	} {
		L.Push(L.NewFunction(pair.f))
		L.Push(lua.LString(pair.n))
		L.Call(1, 0)
	}
}

// NewHost creates a state with the harness attached.
func NewHost(o Options) *Host {
	lo := o.LuaOptions
	if lo.CallStackSize == 0 && lo.RegistrySize == 0 {
		lo = defaultLuaOptions()
	}
	lo.SkipOpenLibs = true
	L := lua.NewState(lo)
	if o.Bare {
		for _, f := range []lua.LGFunction{lua.OpenPackage, lua.OpenBase, lua.OpenTable, lua.OpenString, lua.OpenCoroutine, lua.OpenMath, lua.OpenDebug} {
			f(L)
			L.SetTop(0)
		}
	} else {
		openLibs(L)
	}
	h := &Host{L: L, ids: map[lua.LValue]int{}, MaxSteps: o.MaxSteps, Kind: o.Kind, At: o.At, TrackLimits: o.TrackLimits, reattachAt: o.ReattachAtHostCall}
	if o.WithContext && !o.OnThread {
		h.Ctx = NewSimContext()
		if o.NoContextFirst {
			h.lateAttach = true
		} else if o.BackgroundFirst {
			L.SetContext(context.Background())
		} else {
			L.SetContext(h.Ctx)
		}
	}
	lua.VerifSetStepHook(L, h.onStep)
	lua.VerifSetDispatchHook(L, h.onDispatch)
	L.SetGlobal("emit", L.NewFunction(h.emit))
	L.SetGlobal("snap", L.NewFunction(h.snap))
	L.SetGlobal("clobber", L.NewFunction(h.clobber))
	L.SetGlobal("luadepth", L.NewFunction(h.luadepth))
	L.SetGlobal("hostcall", L.NewFunction(h.hostcall))
	L.SetGlobal("hostpcall", L.NewFunction(h.hostpcall))
	L.SetGlobal("hostyield", L.NewFunction(h.hostyield))
	// reattach(): a host function that replaces the attached context by a fresh one in mid-run
	// (a no-op when no context is attached); the simulator then fires the new one
	// detach(): a host function that takes the context away again in mid-run
	L.SetGlobal("detach", L.NewFunction(func(L *lua.LState) int {
		L.RemoveContext()
		return 0
	}))
	L.SetGlobal("reattach", L.NewFunction(func(L *lua.LState) int {
		if h.lateAttach {
			h.lateAttach = false
			L.SetContext(h.Ctx)
			h.Reattached++
			h.ReattachStep = h.Steps
			return 0
		}
		if h.Ctx != nil && !h.Ctx.Fired() {
			old := h.Ctx
			h.Ctx = NewSimContext()
			L.SetContext(h.Ctx)
			h.Reattached++
			h.ReattachStep = h.Steps
			// the replaced context ends (a host that gives every request its own context cancels the old one):
			// nothing may listen to it any more
			if !h.keepOldContextAlive {
				old.Fire()
			}
		}
		return 0
	}))
	if o.OnThread {
		if o.MainContext && o.WithContext {
			L.SetContext(NewSimContext())
		}
		th, cancel := L.NewThread()
		if o.WithContext && o.MainContext && o.ThreadCancelFunc {
			// h.Ctx is only the simulator's handle here: firing it calls the thread's cancel function
			h.Ctx = NewSimContext()
			h.Ctx.AfterFunc(cancel)
			h.threadCancel = true
		} else if o.WithContext {
			h.Ctx = NewSimContext()
			th.SetContext(h.Ctx)
		}
		h.Main = L
		h.L = th
	}
	return h
}

func (h *Host) Close() { h.L.Close() }

// KeptErrorChanged reports whether the error value an earlier protected entry returned to Go has been modified since
// (its Object replaced or its text changed) by what ran on the state afterwards.
func (h *Host) KeptErrorChanged() string {
	if h.keptErr == nil {
		return ""
	}
	if h.keptErr.Object != h.keptObj || h.keptErr.Error() != h.keptText {
		return fmt.Sprintf("the error returned by the first call read %q (object %v); after a later, contained error on the same state it reads %q (object %v)", firstLineOf(h.keptText), h.keptObj, firstLineOf(h.keptErr.Error()), h.keptErr.Object)
	}
	return ""
}

func firstLineOf(s string) string {
	if i := strings.Index(s, "\n"); i >= 0 {
		return s[:i]
	}
	return s
}

func (h *Host) onStep(L *lua.LState) {
	h.Steps++
	if h.Fired && h.Kind == VCancel {
		h.StepsAfter++
	}
	if h.TrackLimits {
		if d := lua.VerifChainDepth(L); d > h.MaxDepth {
			h.MaxDepth = d
		}
		if d := lua.VerifDepth(L); d > h.MaxThreadDepth {
			h.MaxThreadDepth = d
		}
		if t := lua.VerifRegTop(L); t > h.MaxTop {
			h.MaxTop = t
		}
	}
	if h.MaxSteps > 0 && h.Steps > h.MaxSteps {
		h.Runaway = true
		panic(runawayPanic{})
	}
	if h.ExtraStep != nil {
		h.ExtraStep(L)
	}
	if h.Fired && !h.Fired2 && h.At2 > 0 && h.Steps == h.At2 && h.Steps > h.FiredStep {
		switch h.Kind2 {
		case VRaise:
			h.Fired2 = true
			L.RaiseError(model.FaultMarker)
		case VCancel:
			h.Fired2 = true
			h.Kind = VCancel // from here on the run is a cancelled run
			h.FiredDepth = lua.VerifChainDepth(L)
			if h.Ctx != nil {
				h.Ctx.Fire()
			}
		}
	}
	if !h.Fired && h.Steps == h.At {
		switch h.Kind {
		case VRaise:
			h.Fired = true
			h.FiredStep = h.Steps
			L.RaiseError(model.FaultMarker)
		case VCancel:
			h.Fired = true
			h.FiredStep = h.Steps
			h.FiredDepth = lua.VerifChainDepth(L)
			if h.Ctx != nil {
				h.Ctx.Fire()
			}
		}
	}
}

func (h *Host) onDispatch(L *lua.LState) {
	h.Dispatches++
	if h.Fired && h.Kind == VCancel {
		h.DispAfter++
	}
}

// hostEnter is called first by every host function: it is the host-call
// micro-step at which host-originated faults fire, and a structural check point.
func (h *Host) hostEnter(L *lua.LState) {
	h.HostCalls++
	if h.reattachAt > 0 && h.HostCalls == h.reattachAt && L == h.L && h.Ctx != nil && !h.Ctx.Fired() {
		old := h.Ctx
		h.Ctx = NewSimContext()
		L.SetContext(h.Ctx)
		h.Reattached++
		old.Fire() // the replaced context ends; nothing may listen to it any more
	}
	h.checkUpvalues(L)
	if !h.Fired && IsHostKind(h.Kind) && h.HostCalls == h.At {
		h.Fired = true
		h.FiredStep = h.Steps
		h.fireHost(L, h.Kind)
	}
	// the second fault of a two-fault run fires only after the first one has
	if h.Fired && !h.Fired2 && IsHostKind(h.Kind2) && h.HostCalls == h.At2 {
		h.Fired2 = true
		h.fireHost(L, h.Kind2)
	}
}

func (h *Host) fireHost(L *lua.LState, kind int) {
	{
		switch kind {
		case VGoPanicString:
			panic(model.FaultMarker + " go panic (string)")
		case VGoPanicError:
			panic(errors.New(model.FaultMarker + " go panic (error)"))
		case VGoPanicRuntime:
			var p *Host
			_ = p.Steps // nil-pointer dereference: a genuine runtime error
		case VRaiseError:
			L.RaiseError("%s raised by host function", model.FaultMarker)
		case VErrorTable:
			L.Error(L.NewTable(), 1)
		case VErrorNumber:
			L.Error(lua.LNumber(7777), 1)
		case VErrorFalse:
			L.Error(lua.LFalse, 1)
		case VErrorNil:
			L.Error(lua.LNil, 1)
		}
	}
}

// checkUpvalues: no open upvalue of the running thread may point at or above
// the register window of the (host) frame being entered: nothing live is there.
func (h *Host) checkUpvalues(L *lua.LState) {
	lb := lua.VerifCurrentLocalBase(L)
	if lb < 0 {
		return
	}
	for _, idx := range lua.VerifOpenUpvalues(L) {
		if idx >= lb {
			if len(h.Violations) < 4 {
				h.Violations = append(h.Violations, fmt.Sprintf("dangling-upvalue: open upvalue points at register %d, at or above the entered host frame's base %d (no live frame owns it)", idx, lb))
			}
			return
		}
	}
}

func (h *Host) id(kind int, v lua.LValue) int {
	if id, ok := h.ids[v]; ok {
		return id
	}
	h.nextID[kind]++
	h.ids[v] = h.nextID[kind]
	return h.nextID[kind]
}

// Render gives the canonical rendering of a value (DESIGN B.1/B.2).
func (h *Host) Render(v lua.LValue) string {
	switch x := v.(type) {
	case *lua.LNilType:
		return "nil"
	case lua.LBool:
		if x {
			return "true"
		}
		return "false"
	case lua.LNumber:
		return model.FormatNumber(float64(x))
	case lua.LString:
		s := string(x)
		if (h.Kind == VGoPanicRuntime || h.Kind2 == VGoPanicRuntime) && strings.Contains(s, "invalid memory address or nil pointer dereference") {
			return "<fault>"
		}
		if strings.Contains(s, "error in error handling") {
			return "<fault>"
		}
		if strings.Contains(s, "runtime error: ") && !h.goRuntimeSeen {
			// a Go runtime error (nil dereference, index out of range, ...) that did not come from the injected
			// host fault was raised inside interpreter code and turned into a Lua error by a protected call
			h.goRuntimeSeen = true
			h.Violations = append(h.Violations, "go-runtime-error: a Go runtime error inside the interpreter surfaced as a Lua error value: "+s)
		}
		return model.NormalizeString(s)
	case *lua.LTable:
		return fmt.Sprintf("T#%d", h.id(0, v))
	case *lua.LFunction:
		return fmt.Sprintf("F#%d", h.id(1, v))
	case *lua.LState:
		return fmt.Sprintf("C#%d", h.id(2, v))
	case nil:
		return "<go-nil>"
	}
	return fmt.Sprintf("<%s>", v.Type().String())
}

func (h *Host) emit(L *lua.LState) int {
	h.hostEnter(L)
	n := L.GetTop()
	parts := make([]string, n)
	for i := 1; i <= n; i++ {
		parts[i-1] = h.Render(L.Get(i))
	}
	h.Trace = append(h.Trace, "E:"+strings.Join(parts, ","))
	h.EmitStep = append(h.EmitStep, h.Steps)
	return 0
}

// snap() records a structural snapshot and returns its token; snap(token)
// records another and compares it with the one the token names: both calls are
// made from the same Lua activation, immediately before and after a protected
// call, so call depth and the caller's frame base must agree.
func (h *Host) snap(L *lua.LState) int {
	h.hostEnter(L)
	frames := lua.VerifFrames(L)
	rec := SnapRec{Thread: L, Depth: len(frames) - 1, HasErrFn: false}
	if len(frames) >= 2 {
		rec.CallerLB = frames[len(frames)-2].LocalBase
	}
	if L.GetTop() >= 1 {
		if tok, ok := L.Get(1).(lua.LNumber); ok {
			i := int(tok)
			if i < 0 || i >= len(h.Snaps) {
				h.Violations = append(h.Violations, fmt.Sprintf("snap-token: token %d out of range (a caller local was corrupted)", i))
			} else {
				a := h.Snaps[i]
				if a.Thread != rec.Thread || a.Depth != rec.Depth || a.CallerLB != rec.CallerLB {
					h.Violations = append(h.Violations, fmt.Sprintf("structure-not-restored: before the protected call depth=%d callerBase=%d thread=%p, after it depth=%d callerBase=%d thread=%p",
						a.Depth, a.CallerLB, a.Thread, rec.Depth, rec.CallerLB, rec.Thread))
				}
			}
		} else {
			h.Violations = append(h.Violations, fmt.Sprintf("snap-token: token is a %s (a caller local was corrupted)", L.Get(1).Type().String()))
		}
		h.Snaps = append(h.Snaps, rec)
		return 0
	}
	h.Snaps = append(h.Snaps, rec)
	L.Push(lua.LNumber(len(h.Snaps) - 1))
	return 1
}

// clobber overwrites as many registers above the caller as it can.
func (h *Host) clobber(L *lua.LState) int {
	h.hostEnter(L)
	for i := 0; i < 48; i++ {
		L.Push(lua.LNumber(900000 + i))
	}
	L.SetTop(0)
	return 0
}

func (h *Host) luadepth(L *lua.LState) int {
	h.hostEnter(L)
	n := 0
	for _, f := range lua.VerifFrames(L) {
		if !f.IsG {
			n++
		}
	}
	L.Push(lua.LNumber(n))
	return 1
}

// hostcall(f, ...) calls f from Go with L.Call (Go -> Lua re-entry) and returns all results.
func (h *Host) hostcall(L *lua.LState) int {
	h.hostEnter(L)
	n := L.GetTop()
	if n == 0 {
		L.RaiseError("bad argument")
	}
	L.Call(n-1, lua.MultRet)
	return L.GetTop()
}

// hostyield(k, base) suspends the running coroutine through the Go API: it yields the k values base+1 .. base+k
// (whatever number of arguments it was given); the values given to the next resume are its results.
func (h *Host) hostyield(L *lua.LState) int {
	h.hostEnter(L)
	k, base := L.OptInt(1, 0), L.OptInt(2, 0)
	vals := make([]lua.LValue, k)
	for i := range vals {
		vals[i] = lua.LNumber(base + i + 1)
	}
	return L.Yield(vals...)
}

// hostpcall(f, ...) is a Go-side protected call: L.PCall with MultRet and no handler.
func (h *Host) hostpcall(L *lua.LState) int {
	h.hostEnter(L)
	n := L.GetTop()
	if n == 0 {
		L.RaiseError("bad argument")
	}
	top0 := 0
	err := L.PCall(n-1, lua.MultRet, nil)
	if err != nil {
		if L.GetTop() != top0 {
			h.Violations = append(h.Violations, fmt.Sprintf("gopcall-stack: after a failed Go-side PCall the value stack holds %d values, want %d", L.GetTop(), top0))
			L.SetTop(top0)
		}
		L.Push(lua.LFalse)
		if ae, ok := err.(*lua.ApiError); ok && ae.Object != nil {
			L.Push(ae.Object)
		} else {
			L.Push(lua.LString(err.Error()))
		}
		return 2
	}
	L.Insert(lua.LTrue, 1)
	return L.GetTop()
}

// Compile parses and compiles source text once; the prototype can be
// instantiated in any number of states.
func Compile(src string) (*lua.FunctionProto, error) {
	chunk, err := parse.Parse(strings.NewReader(src), ir.ChunkName)
	if err != nil {
		return nil, err
	}
	return lua.Compile(chunk, ir.ChunkName)
}

// CompileFromFile compiles a program that was rendered with a header line the way a script file is loaded: the header
// is replaced by a '#' line and the text goes through LState.LoadFile (which skips that line). The prototype must be
// the one Compile gives, source positions included.
func CompileFromFile(src string) (*lua.FunctionProto, error) {
	if !strings.HasPrefix(src, ir.HeaderLine) {
		return Compile(src)
	}
	f, err := os.CreateTemp("", "simlua*.lua")
	if err != nil {
		return nil, err
	}
	defer os.Remove(f.Name())
	f.WriteString("#!/usr/bin/env lua" + src[len(ir.HeaderLine):])
	f.Close()
	L := lua.NewState(lua.Options{SkipOpenLibs: true})
	defer L.Close()
	fn, err := L.LoadFile(f.Name())
	if err != nil {
		return nil, err
	}
	return fn.Proto, nil
}

// Outcome of running a chunk from Go.
type Outcome struct {
	TopError    string // canonical rendering of the error that left the chunk, "" if none
	RawError    string
	Escaped     string // non-empty: a Go panic left the protected entry point
	ErrIsCancel bool
}

// RunProto instantiates the prototype and runs it under a Go-side PCall.
func (h *Host) RunProto(p *lua.FunctionProto) (out Outcome) {
	L := h.L
	top := L.GetTop()
	defer func() {
		if r := recover(); r != nil {
			if _, ok := r.(runawayPanic); ok {
				h.Runaway = true
				return
			}
			out.Escaped = fmt.Sprintf("%v\n%s", r, trimStack(string(debug.Stack())))
		}
	}()
	fn := L.NewFunctionFromProto(p)
	// junk below the call: a protected call must not disturb what the caller had on the stack
	for i := 0; i < h.EntryJunk; i++ {
		L.Push(lua.LNumber(5000 + i))
	}
	top = L.GetTop()
	var err error
	wantOK := top
	switch h.Entry {
	case 1:
		L.Push(fn)
		err = L.PCall(0, 0, nil)
	case 2:
		L.Push(fn)
		err = L.PCall(0, 2, nil)
		wantOK = top + 2
	case 3:
		err = L.CallByParam(lua.P{Fn: fn, NRet: 1, Protect: true})
		wantOK = top + 1
	case 4:
		// a Go message handler that hands the error value through
		err = L.CallByParam(lua.P{Fn: fn, NRet: lua.MultRet, Protect: true, Handler: L.NewFunction(func(L *lua.LState) int { return 1 })})
	case 5:
		L.Push(fn)
		err = L.PCall(0, lua.MultRet, L.NewFunction(func(L *lua.LState) int { return 1 }))
	case 6:
		// the text itself through DoString (when the engine supplied it), which leaves nothing on the stack
		if h.Source != "" {
			src := h.Source
			h.Source = "" // a later chunk on the same state is given as a prototype
			err = L.DoString(src)
			break
		}
		fallthrough
	default:
		L.Push(fn)
		err = L.PCall(0, lua.MultRet, nil)
	}
	if err == nil && L.GetTop() != wantOK {
		h.Violations = append(h.Violations, fmt.Sprintf("gopcall-stack: after a successful top-level protected call (entry style %d) GetTop()=%d, want %d", h.Entry, L.GetTop(), wantOK))
	}
	for i := 0; i < h.EntryJunk; i++ {
		if v, ok := L.Get(top - h.EntryJunk + 1 + i).(lua.LNumber); !ok || int(v) != 5000+i {
			h.Violations = append(h.Violations, fmt.Sprintf("gopcall-stack: the caller's value at stack index %d was disturbed by the protected call (now %v)", top-h.EntryJunk+1+i, L.Get(top-h.EntryJunk+1+i)))
			break
		}
	}
	if err != nil {
		if ae, ok := err.(*lua.ApiError); ok {
			// the error value belongs to the Go caller from now on: later errors on the same state must not change it
			h.keptErr, h.keptObj, h.keptText = ae, ae.Object, err.Error()
		}
		out.RawError = err.Error()
		if ae, ok := err.(*lua.ApiError); ok && ae.Object != nil && ae.Object != lua.LNil {
			out.TopError = h.Render(ae.Object)
		} else if ae, ok := err.(*lua.ApiError); ok && ae.Object == lua.LNil {
			out.TopError = "nil"
		} else {
			out.TopError = model.NormalizeString(err.Error())
		}
		if strings.Contains(out.RawError, CancelReason) || h.threadCancel && h.Reattached == 0 && strings.Contains(out.RawError, context.Canceled.Error()) {
			out.ErrIsCancel = true
			out.TopError = "<cancelled>"
		}
		if strings.Contains(out.RawError, "runawayPanic") {
			h.Runaway = true
		}
		if L.GetTop() != top {
			h.Violations = append(h.Violations, fmt.Sprintf("gopcall-stack: after a failed top-level PCall GetTop()=%d, want %d", L.GetTop(), top))
		}
	}
	if d := lua.VerifDepth(L); d != 0 {
		h.Violations = append(h.Violations, fmt.Sprintf("structure-not-restored: %d call frames left on the main thread after the top-level PCall returned", d))
	}
	if lua.VerifHasCurrentFrame(L) {
		h.Violations = append(h.Violations, "structure-not-restored: currentFrame still set after the top-level PCall returned")
	}
	L.SetTop(top - h.EntryJunk)
	return out
}

func trimStack(s string) string {
	if len(s) > 2500 {
		return s[:2500] + "..."
	}
	return s
}
