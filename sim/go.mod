module luasim

go 1.23

require (
	github.com/anishathalye/porcupine v1.3.0
	github.com/yuin/gopher-lua v0.0.0
)

replace github.com/yuin/gopher-lua => /repo

replace github.com/anishathalye/porcupine => ../third_party/porcupine
