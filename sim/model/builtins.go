package model

import (
	"strings"

	"luasim/ir"
)

// Coroutine is a model coroutine. It runs on its own goroutine with strict
// hand-off, so exactly one goroutine touches the Machine at any time.
type Coroutine struct {
	fn       Value
	status   string // suspended | running | normal | dead
	started  bool
	wrapped  bool
	resumeCh chan coMsg
	yieldCh  chan coMsg
	th       *thread
	done     bool // goroutine finished
}

type coMsg struct {
	kind string // args | kill | yield | return | error | cancel | runaway | killed | gopanic
	vals []Value
	err  *luaError
	pv   interface{}
}

func (m *Machine) newCoroutine(fn Value, wrapped bool) *Coroutine {
	co := &Coroutine{fn: fn, status: "suspended", wrapped: wrapped, resumeCh: make(chan coMsg), yieldCh: make(chan coMsg)}
	co.th = &thread{co: co}
	m.allCos = append(m.allCos, co)
	return co
}

// resume transfers control into co and returns when it yields, returns or fails.
// ok=false means the coroutine died with an error (val in vals[0]).
func (m *Machine) resume(co *Coroutine, args []Value) (ok bool, vals []Value, refused string) {
	if co.status == "dead" {
		return false, nil, "cannot resume dead coroutine"
	}
	if co.status == "running" {
		return false, nil, "cannot resume running coroutine"
	}
	if co.status == "normal" {
		return false, nil, "cannot resume normal coroutine"
	}
	prev := m.cur
	if prev.co != nil {
		prev.co.status = "normal"
	}
	co.status = "running"
	m.cur = co.th
	nc := len(m.ctx)
	m.pushCtx("co")
	if !co.started {
		co.started = true
		go m.coMain(co, args)
	} else {
		co.resumeCh <- coMsg{kind: "args", vals: args}
	}
	msg := <-co.yieldCh
	m.ctx = m.ctx[:nc]
	m.cur = prev
	if prev.co != nil {
		prev.co.status = "running"
	}
	switch msg.kind {
	case "yield":
		co.status = "suspended"
		return true, msg.vals, ""
	case "return":
		co.status = "dead"
		co.done = true
		return true, msg.vals, ""
	case "error":
		co.status = "dead"
		co.done = true
		return false, []Value{msg.err.val}, ""
	case "cancel":
		co.status = "dead"
		co.done = true
		panic(cancelSignal{})
	case "runaway":
		co.status = "dead"
		co.done = true
		panic(runawaySignal{})
	case "gopanic":
		co.done = true
		panic(msg.pv)
	}
	panic("model: unexpected coroutine message " + msg.kind)
}

func (m *Machine) coMain(co *Coroutine, args []Value) {
	defer func() {
		if r := recover(); r != nil {
			switch e := r.(type) {
			case *luaError:
				co.yieldCh <- coMsg{kind: "error", err: e}
			case cancelSignal:
				co.yieldCh <- coMsg{kind: "cancel"}
			case runawaySignal:
				co.yieldCh <- coMsg{kind: "runaway"}
			case killSignal:
				co.yieldCh <- coMsg{kind: "killed"}
			default:
				co.yieldCh <- coMsg{kind: "gopanic", pv: r}
			}
		}
	}()
	res := m.call(co.fn, args)
	co.yieldCh <- coMsg{kind: "return", vals: res}
}

func (m *Machine) yield(vals []Value) []Value {
	co := m.cur.co
	if co == nil {
		m.rtError("attempt to yield from outside a coroutine")
	}
	if m.yieldBlocked() {
		// Lua 5.1: a coroutine cannot be suspended while a host (C) function that called back into Lua is
		// on its stack - pcall/xpcall, a metamethod, a generic-for iterator, a sort comparator, a gsub
		// callback, an error handler, a host function
		m.rtError("attempt to yield across metamethod/C-call boundary")
	}
	co.yieldCh <- coMsg{kind: "yield", vals: vals}
	msg := <-co.resumeCh
	if msg.kind == "kill" {
		panic(killSignal{})
	}
	return msg.vals
}

// yieldBlocked reports whether a host-function boundary lies between the running coroutine's base and
// the current point (the __call metamethod is resolved by the call instruction itself and is none).
func (m *Machine) yieldBlocked() bool {
	for i := len(m.ctx) - 1; i >= 0; i-- {
		switch m.ctx[i] {
		case "co":
			return false
		case "callmeta":
		default:
			return true
		}
	}
	return false
}

// killAll unwinds the goroutines of coroutines that are still suspended.
func (m *Machine) killAll() {
	for _, co := range m.allCos {
		if co.started && !co.done && co.status == "suspended" {
			co.resumeCh <- coMsg{kind: "kill"}
			<-co.yieldCh
			co.done = true
		}
	}
	m.allCos = nil
}

// protected runs f and catches Lua errors (never cancellation or control signals).
func (m *Machine) protected(f func() []Value) (ok bool, res []Value, err *luaError) {
	defer func() {
		if r := recover(); r != nil {
			if e, isLua := r.(*luaError); isLua {
				ok, res, err = false, nil, e
				return
			}
			panic(r)
		}
	}()
	return true, f(), nil
}

func arg(args []Value, i int) Value {
	if i < len(args) {
		return args[i]
	}
	return nil
}

func (m *Machine) bind(name string, fn func(m *Machine, args []Value) []Value) {
	m.root.declare(name, &Builtin{Name: name, Fn: fn})
}

func (m *Machine) pcallLike(ctxName string, fn Value, args []Value, handler Value) []Value {
	th := m.cur
	nf := len(th.frames)
	nc := len(m.ctx)
	m.pushCtx(ctxName)
	ok, res, err := m.protected(func() []Value { return m.call(fn, args) })
	if ok {
		m.ctx = m.ctx[:nc]
		m.step() // body returned, results about to be delivered
		return append([]Value{true}, res...)
	}
	// error: m.cur must again be the catching thread
	m.cur = th
	m.ctx = m.ctx[:nc]
	if handler != nil {
		// the handler runs before unwinding: frames are still those of the raise point
		m.pushCtx("handler")
		ok2, hres, err2 := m.protected(func() []Value { return m.call(handler, []Value{err.val}) })
		m.ctx = m.ctx[:nc]
		th.frames = th.frames[:nf]
		if !ok2 {
			m.step()
			return []Value{false, err2.val}
		}
		m.step()
		return []Value{false, arg(hres, 0)}
	}
	th.frames = th.frames[:nf]
	m.step()
	return []Value{false, err.val}
}

func (m *Machine) installPrelude() {
	// host functions
	m.bind("emit", func(m *Machine, args []Value) []Value {
		m.hostStep()
		parts := make([]string, len(args))
		for i, a := range args {
			parts[i] = m.render(a)
		}
		m.Trace = append(m.Trace, "E:"+strings.Join(parts, ","))
		return nil
	})
	m.bind("snap", func(m *Machine, args []Value) []Value {
		m.hostStep()
		return nil
	})
	m.bind("clobber", func(m *Machine, args []Value) []Value {
		m.hostStep()
		return nil
	})
	m.bind("luadepth", func(m *Machine, args []Value) []Value {
		m.hostStep()
		return []Value{float64(len(m.cur.frames))}
	})
	m.bind("hostcall", func(m *Machine, args []Value) []Value {
		m.hostStep()
		if len(args) == 0 {
			m.rtError("bad argument")
		}
		m.pushCtx("hostcall")
		nc := len(m.ctx) - 1
		res := m.call(args[0], args[1:])
		m.ctx = m.ctx[:nc]
		return res
	})
	m.bind("hostyield", func(m *Machine, args []Value) []Value {
		m.hostStep()
		k, _ := arg(args, 0).(float64)
		base, _ := arg(args, 1).(float64)
		vals := make([]Value, int(k))
		for i := range vals {
			vals[i] = base + float64(i) + 1
		}
		res := m.yield(vals)
		m.step() // resumed
		return res
	})
	m.bind("hostpcall", func(m *Machine, args []Value) []Value {
		m.hostStep()
		if len(args) == 0 {
			m.rtError("bad argument")
		}
		return m.pcallLike("gopcall", args[0], args[1:], nil)
	})

	// protected calls and errors
	m.bind("pcall", func(m *Machine, args []Value) []Value {
		m.step()
		if len(args) == 0 {
			m.rtError("bad argument #1 to pcall")
		}
		return m.pcallLike("pcall", args[0], args[1:], nil)
	})
	m.bind("xpcall", func(m *Machine, args []Value) []Value {
		m.step()
		if len(args) < 2 {
			m.rtError("bad argument #2 to xpcall")
		}
		return m.pcallLike("xpcall", args[0], nil, args[1])
	})
	m.bind("error", func(m *Machine, args []Value) []Value {
		m.step()
		v := arg(args, 0)
		level := 1
		if l, ok := arg(args, 1).(float64); ok {
			level = int(l)
		}
		if s, ok := v.(string); ok && level > 0 {
			v = m.where(level) + s
		}
		m.raise(v)
		return nil
	})

	// coroutines
	m.bind("cocreate", func(m *Machine, args []Value) []Value {
		m.step()
		switch arg(args, 0).(type) {
		case *Closure, *Builtin:
		default:
			m.rtError("bad argument #1 to create")
		}
		return []Value{m.newCoroutine(args[0], false)}
	})
	m.bind("coresume", func(m *Machine, args []Value) []Value {
		m.step()
		co, ok := arg(args, 0).(*Coroutine)
		if !ok {
			m.rtError("bad argument #1 to resume")
		}
		th := m.cur
		ok2, vals, refused := m.resume(co, args[1:])
		m.cur = th
		m.step() // resume returned
		if refused != "" {
			return []Value{false, refused + " (refused)"}
		}
		if !ok2 {
			return []Value{false, vals[0]}
		}
		return append([]Value{true}, vals...)
	})
	m.bind("coyield", func(m *Machine, args []Value) []Value {
		m.step()
		res := m.yield(args)
		m.step() // resumed
		return res
	})
	m.bind("cowrap", func(m *Machine, args []Value) []Value {
		m.step()
		switch arg(args, 0).(type) {
		case *Closure, *Builtin:
		default:
			m.rtError("bad argument #1 to wrap")
		}
		co := m.newCoroutine(args[0], true)
		b := &Builtin{Name: "wrapped", co: co}
		b.Fn = func(m *Machine, args []Value) []Value {
			m.step()
			th := m.cur
			ok, vals, refused := m.resume(co, args)
			m.cur = th
			m.step()
			if refused != "" {
				m.rtError(refused)
			}
			if !ok {
				// the error propagates into the resumer's thread
				m.raise(vals[0])
			}
			return vals
		}
		return []Value{b}
	})
	m.bind("costatus", func(m *Machine, args []Value) []Value {
		m.step()
		co, ok := arg(args, 0).(*Coroutine)
		if !ok {
			m.rtError("bad argument #1 to status")
		}
		return []Value{co.status}
	})
	m.bind("corunning", func(m *Machine, args []Value) []Value {
		m.step()
		if m.cur.co == nil {
			return []Value{nil}
		}
		return []Value{m.cur.co}
	})

	// environments and metatables
	m.bind("setfenv", func(m *Machine, args []Value) []Value {
		m.step()
		t, ok := arg(args, 1).(*Table)
		if !ok {
			m.rtError("bad argument #2 to setfenv")
		}
		switch f := arg(args, 0).(type) {
		case *Closure:
			f.Fenv = t
			return []Value{f}
		case float64:
			lv := int(f)
			n := len(m.cur.frames)
			if lv < 1 || lv > n {
				m.rtError("bad argument #1 to setfenv (invalid level)")
			}
			m.cur.frames[n-lv].cl.Fenv = t
			return []Value{m.cur.frames[n-lv].cl}
		}
		m.rtError("bad argument #1 to setfenv")
		return nil
	})
	m.bind("getfenv", func(m *Machine, args []Value) []Value {
		m.step()
		switch f := arg(args, 0).(type) {
		case *Closure:
			return []Value{f.Fenv}
		case nil:
			n := len(m.cur.frames)
			return []Value{m.cur.frames[n-1].cl.Fenv}
		case float64:
			lv := int(f)
			n := len(m.cur.frames)
			if lv < 1 || lv > n {
				m.rtError("bad argument #1 to getfenv (invalid level)")
			}
			return []Value{m.cur.frames[n-lv].cl.Fenv}
		}
		m.rtError("bad argument #1 to getfenv")
		return nil
	})
	m.bind("setmetatable", func(m *Machine, args []Value) []Value {
		m.step()
		t, ok := arg(args, 0).(*Table)
		if !ok {
			m.rtError("bad argument #1 to setmetatable")
		}
		switch mt := arg(args, 1).(type) {
		case nil:
			t.Meta = nil
		case *Table:
			t.Meta = mt
		default:
			m.rtError("bad argument #2 to setmetatable")
		}
		return []Value{t}
	})
	m.bind("getmetatable", func(m *Machine, args []Value) []Value {
		m.step()
		if t, ok := arg(args, 0).(*Table); ok && t.Meta != nil {
			return []Value{t.Meta}
		}
		return []Value{nil}
	})

	// library re-entry sites
	m.bind("tsort", func(m *Machine, args []Value) []Value {
		m.step()
		t, ok := arg(args, 0).(*Table)
		if !ok {
			m.rtError("bad argument #1 to sort")
		}
		cmp := arg(args, 1)
		n := t.Len()
		nc := len(m.ctx)
		m.pushCtx("cmp")
		less := func(a, b Value) bool {
			if cmp != nil {
				rs := m.call(cmp, []Value{a, b})
				return truthy(arg(rs, 0))
			}
			x, ok1 := a.(float64)
			y, ok2 := b.(float64)
			if ok1 && ok2 {
				return x < y
			}
			xs, ok1 := a.(string)
			ys, ok2 := b.(string)
			if ok1 && ok2 {
				return xs < ys
			}
			m.rtError("attempt to compare")
			return false
		}
		// insertion sort writing through as it goes (an aborted sort leaves a permutation)
		for i := 2; i <= n; i++ {
			for j := i; j > 1; j-- {
				a, b := t.Get(float64(j-1)), t.Get(float64(j))
				if less(b, a) {
					t.Set(float64(j-1), b)
					t.Set(float64(j), a)
				} else {
					break
				}
			}
		}
		m.ctx = m.ctx[:nc]
		m.step()
		return nil
	})
	m.bind("gsub", func(m *Machine, args []Value) []Value {
		m.step()
		s, ok := arg(args, 0).(string)
		pat, ok2 := arg(args, 1).(string)
		if !ok || !ok2 {
			m.rtError("bad argument to gsub")
		}
		match := func(c byte) bool {
			switch pat {
			case "%a":
				return (c >= 'a' && c <= 'z') || (c >= 'A' && c <= 'Z')
			case "%d":
				return c >= '0' && c <= '9'
			case "%w":
				return (c >= 'a' && c <= 'z') || (c >= 'A' && c <= 'Z') || (c >= '0' && c <= '9')
			case ".":
				return true
			}
			panic("model: gsub pattern outside SimLua: " + pat)
		}
		repl := arg(args, 2)
		nc := len(m.ctx)
		m.pushCtx("gsub")
		var sb strings.Builder
		count := 0
		for i := 0; i < len(s); i++ {
			c := s[i]
			if !match(c) {
				sb.WriteByte(c)
				continue
			}
			count++
			var r Value
			switch rp := repl.(type) {
			case *Closure, *Builtin:
				rs := m.call(rp, []Value{string(c)})
				r = arg(rs, 0)
			case *Table:
				r = m.index(rp, string(c))
			case string:
				r = rp
			default:
				m.rtError("bad argument #3 to gsub")
			}
			switch rv := r.(type) {
			case nil:
				sb.WriteByte(c)
			case bool:
				if rv {
					m.rtError("invalid replacement value (a boolean)")
				}
				sb.WriteByte(c)
			case string:
				sb.WriteString(rv)
			case float64:
				sb.WriteString(FormatNumber(rv))
			default:
				m.rtError("invalid replacement value")
			}
		}
		m.ctx = m.ctx[:nc]
		m.step()
		return []Value{sb.String(), float64(count)}
	})

	// small pure builtins
	m.bind("select", func(m *Machine, args []Value) []Value {
		m.step()
		if s, ok := arg(args, 0).(string); ok && s == "#" {
			return []Value{float64(len(args) - 1)}
		}
		n, ok := arg(args, 0).(float64)
		if !ok || int(n) < 1 {
			m.rtError("bad argument #1 to select")
		}
		if int(n) >= len(args) {
			return nil
		}
		return append([]Value(nil), args[int(n):]...)
	})
	m.bind("unpack", func(m *Machine, args []Value) []Value {
		m.step()
		t, ok := arg(args, 0).(*Table)
		if !ok {
			m.rtError("bad argument #1 to unpack")
		}
		n := t.Len()
		out := make([]Value, n)
		for i := 1; i <= n; i++ {
			out[i-1] = t.Get(float64(i))
		}
		return out
	})
	m.bind("tostring", func(m *Machine, args []Value) []Value {
		m.step()
		switch v := arg(args, 0).(type) {
		case nil:
			return []Value{"nil"}
		case bool:
			if v {
				return []Value{"true"}
			}
			return []Value{"false"}
		case float64:
			return []Value{FormatNumber(v)}
		case string:
			return []Value{v}
		case *Table:
			if v.Meta != nil {
				if h := v.Meta.Get("__tostring"); h != nil {
					m.pushCtx("meta")
					rs := m.call(h, []Value{v})
					m.popCtx()
					if s, ok := arg(rs, 0).(string); ok {
						return []Value{s}
					}
					m.rtError("'__tostring' must return a string")
				}
			}
		}
		panic("model: tostring of an object without __tostring is outside SimLua")
	})
	// string.format, "%s" only. gopher-lua does not consult __tostring here (a table is shown by its address), so the
	// text for a table is never compared: programs look at the type of the result only.
	m.bind("strformat", func(m *Machine, args []Value) []Value {
		m.step()
		switch v := arg(args, 1).(type) {
		case float64:
			return []Value{FormatNumber(v)}
		case string:
			return []Value{v}
		case *Table:
			return []Value{"<table text>"}
		}
		panic("model: string.format of this value is outside SimLua")
	})
	m.bind("type", func(m *Machine, args []Value) []Value {
		m.step()
		if len(args) == 0 {
			m.rtError("bad argument #1 to type")
		}
		return []Value{typeName(args[0])}
	})
	m.bind("rawequal", func(m *Machine, args []Value) []Value {
		m.step()
		return []Value{rawEqual(arg(args, 0), arg(args, 1))}
	})
	m.bind("rawget", func(m *Machine, args []Value) []Value {
		m.step()
		t, ok := arg(args, 0).(*Table)
		if !ok {
			m.rtError("bad argument #1 to rawget")
		}
		return []Value{t.Get(arg(args, 1))}
	})
	m.bind("rawset", func(m *Machine, args []Value) []Value {
		m.step()
		t, ok := arg(args, 0).(*Table)
		if !ok {
			m.rtError("bad argument #1 to rawset")
		}
		t.Set(arg(args, 1), arg(args, 2))
		return []Value{t}
	})
	// debug.getupvalue / debug.setupvalue, for closures that mention exactly one variable of an enclosing function
	m.bind("dgetup", func(m *Machine, args []Value) []Value {
		m.step()
		cl, ok := arg(args, 0).(*Closure)
		n, _ := arg(args, 1).(float64)
		if _, isB := arg(args, 0).(*Builtin); isB {
			return []Value{nil}
		}
		if !ok {
			m.rtError("bad argument #1 to getupvalue (function expected)")
		}
		name, c := soleUpvalue(cl)
		if n != 1 {
			return []Value{nil}
		}
		return []Value{name, c.V}
	})
	m.bind("dsetup", func(m *Machine, args []Value) []Value {
		m.step()
		cl, ok := arg(args, 0).(*Closure)
		n, _ := arg(args, 1).(float64)
		if _, isB := arg(args, 0).(*Builtin); isB {
			return []Value{nil}
		}
		if !ok {
			m.rtError("bad argument #1 to setupvalue (function expected)")
		}
		if len(args) < 3 {
			panic("model: debug.setupvalue without a value is outside SimLua")
		}
		name, c := soleUpvalue(cl)
		if n != 1 {
			return []Value{nil}
		}
		c.V = args[2]
		return []Value{name}
	})
	ipairsIter := &Builtin{Name: "ipairs_iter"}
	ipairsIter.Fn = func(m *Machine, args []Value) []Value {
		t, ok := arg(args, 0).(*Table)
		i, ok2 := arg(args, 1).(float64)
		if !ok || !ok2 {
			m.rtError("bad argument to ipairs iterator")
		}
		v := t.Get(i + 1)
		if v == nil {
			return []Value{nil}
		}
		return []Value{i + 1, v}
	}
	m.bind("ipairs", func(m *Machine, args []Value) []Value {
		m.step()
		t, ok := arg(args, 0).(*Table)
		if !ok {
			m.rtError("bad argument #1 to ipairs")
		}
		return []Value{ipairsIter, t, float64(0)}
	})
}

// soleUpvalue finds the one variable of an enclosing function that the body of cl mentions. Only the statement and
// expression forms the generator uses for such closures are understood.
func soleUpvalue(cl *Closure) (string, *Cell) {
	own := map[string]bool{}
	for _, p := range cl.Def.Params {
		own[p] = true
	}
	var names []string
	var walk func(e ir.Expr)
	walk = func(e ir.Expr) {
		switch x := e.(type) {
		case ir.Var:
			if !own[x.Name] && cl.Env.lookup(x.Name) != nil {
				for _, n := range names {
					if n == x.Name {
						return
					}
				}
				names = append(names, x.Name)
			}
		case ir.Bin:
			walk(x.L)
			walk(x.R)
		case ir.Un:
			walk(x.X)
		case ir.Nil, ir.True, ir.False, ir.Num, ir.Str:
		default:
			panic("model: upvalue analysis of this expression is outside SimLua")
		}
	}
	for _, s := range cl.Def.Body {
		switch x := s.(type) {
		case *ir.Assign:
			for _, e := range x.Exprs {
				walk(e)
			}
			for _, t := range x.Targets {
				walk(t)
			}
		case *ir.Return:
			for _, e := range x.Exprs {
				walk(e)
			}
		default:
			panic("model: upvalue analysis of this statement is outside SimLua")
		}
	}
	if len(names) != 1 {
		panic("model: debug upvalue access needs a closure with exactly one upvalue")
	}
	return names[0], cl.Env.lookup(names[0])
}
