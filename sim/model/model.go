// Package model is the executable reference model of SimLua: a direct
// interpreter over the IR with Lua 5.1 semantics for the constructs SimLua
// contains. It shares no code with gopher-lua. It counts micro-steps and can
// raise one model-level fault at a chosen micro-step, which then propagates by
// Lua's rules; the set of traces over all micro-steps is the acceptable set for
// a single injected fault.
package model

import (
	"fmt"
	"math"
	"sort"
	"strconv"
	"strings"

	"luasim/ir"
)

// Value is nil, bool, float64, string, *Table, *Closure, *Builtin or *Coroutine.
type Value interface{}

type Table struct {
	hash map[Value]Value
	Meta *Table
}

func NewTable() *Table { return &Table{hash: map[Value]Value{}} }

func (t *Table) Get(k Value) Value { return t.hash[k] }
func (t *Table) Set(k, v Value) {
	if v == nil {
		delete(t.hash, k)
	} else {
		t.hash[k] = v
	}
}
func (t *Table) Len() int {
	n := 0
	for {
		if _, ok := t.hash[float64(n+1)]; !ok {
			return n
		}
		n++
	}
}

type Cell struct{ V Value }

type Scope struct {
	vars   map[string]*Cell
	parent *Scope
}

func newScope(parent *Scope) *Scope { return &Scope{parent: parent} }
func (s *Scope) declare(name string, v Value) *Cell {
	if s.vars == nil {
		s.vars = make(map[string]*Cell, 4)
	}
	c := &Cell{V: v}
	s.vars[name] = c
	return c
}
func (s *Scope) lookup(name string) *Cell {
	for sc := s; sc != nil; sc = sc.parent {
		if c, ok := sc.vars[name]; ok {
			return c
		}
	}
	return nil
}

type Closure struct {
	Def  *ir.FuncDef
	Env  *Scope
	Fenv *Table
}

type Builtin struct {
	Name string
	Fn   func(m *Machine, args []Value) []Value
	// wrap: the coroutine behind a coroutine.wrap function
	co *Coroutine
}

// Fault kinds.
const (
	FaultNone       = iota
	FaultRaise      // one-shot error with a <fault> string, at any micro-step
	FaultHostString // host function fails with a <fault> string (Go panic / RaiseError), host-call micro-steps only
	FaultHostTable  // host function raises a fresh table
	FaultHostNumber // host function raises the number 7777
	FaultHostFalse  // host function raises false
	FaultHostNil    // host function raises nil
	FaultCancel     // sticky cancellation: not catchable by Lua-level handlers
)

// IsHostKind reports whether the fault kind strikes only at host-call micro-steps.
func IsHostKind(k int) bool { return k >= FaultHostString && k <= FaultHostNil }

// FaultMarker is the text carried by injected string faults.
const FaultMarker = "SIMFAULT"

type luaError struct {
	val   Value
	depth int // Lua-frame depth (of the thread it is propagating in) at the raise point
}

type cancelSignal struct{}
type killSignal struct{} // unwinds an abandoned model coroutine goroutine
type runawaySignal struct{}

type frame struct {
	cl   *Closure
	line int // line of the statement being executed
}

type thread struct {
	co     *Coroutine // nil for the main thread
	frames []*frame   // Lua frames only
}

// Machine is one model execution.
type Machine struct {
	Trace  []string
	Snaps  []string
	ids    map[Value]int
	nextID [4]int

	root    *Scope
	Globals *Table

	steps      int64 // micro-steps so far
	hostSteps  int64
	faultKind  int
	faultAt    int64
	fired      bool
	fault2Kind int
	fault2At   int64
	fired2     bool
	Fired2Ctx  string
	FiredCtx   string // context signature at the abort point
	MaxSteps   int64
	StoreRTL   bool // multiple assignment stores right-to-left

	cur       *thread
	main      *thread
	ctx       []string // dynamic context stack: pcall, xpcall, handler, co, meta, iter, cmp, gsub
	allCos    []*Coroutine
	TopError  string // normalised top-level error, "" if none
	Cancelled bool
	Runaway   bool

	chunkName string
}

// Result of a model run.
type Result struct {
	Trace     []string
	TraceHash uint64
	Steps     int64
	HostSteps int64
	Fired     bool
	Fired2    bool
	FiredCtx  string
	Fired2Ctx string
	TopError  string
	Cancelled bool
	Runaway   bool
}

func (m *Machine) pushCtx(c string) { m.ctx = append(m.ctx, c) }
func (m *Machine) popCtx()          { m.ctx = m.ctx[:len(m.ctx)-1] }

func (m *Machine) ctxSig() string {
	if len(m.ctx) == 0 {
		return "top"
	}
	// de-duplicate consecutive entries, keep order, cap length
	var out []string
	for _, c := range m.ctx {
		if len(out) == 0 || out[len(out)-1] != c {
			out = append(out, c)
		}
	}
	if len(out) > 4 {
		out = out[len(out)-4:]
	}
	return strings.Join(out, ">")
}

func (m *Machine) faultValue() Value { return faultValueOf(m.faultKind) }

func faultValueOf(kind int) Value {
	switch kind {
	case FaultHostTable:
		return NewTable()
	case FaultHostNumber:
		return float64(7777)
	case FaultHostFalse:
		return false
	case FaultHostNil:
		return nil
	}
	return FaultMarker
}

// step is one micro-step boundary; a pending non-host fault fires before the
// effect of the step.
func (m *Machine) step() {
	m.steps++
	if m.MaxSteps > 0 && m.steps > m.MaxSteps {
		m.Runaway = true
		panic(runawaySignal{})
	}
	if m.Cancelled {
		panic(cancelSignal{})
	}
	if !m.fired && m.faultAt == m.steps && m.faultKind != FaultNone && !IsHostKind(m.faultKind) {
		m.fired = true
		m.FiredCtx = m.ctxSig()
		if m.faultKind == FaultCancel {
			m.Cancelled = true
			panic(cancelSignal{})
		}
		m.raise(m.faultValue())
	}
	// the second fault of a two-fault run: it can fire only after the first one has
	if m.fired && !m.fired2 && m.fault2At == m.steps && m.fault2Kind != FaultNone && !IsHostKind(m.fault2Kind) {
		m.fired2 = true
		m.Fired2Ctx = m.ctxSig()
		if m.fault2Kind == FaultCancel {
			m.Cancelled = true
			panic(cancelSignal{})
		}
		m.raise(faultValueOf(m.fault2Kind))
	}
}

// hostStep is the micro-step of a host function call; host-originated faults
// fire here, before the host function's effect.
func (m *Machine) hostStep() {
	m.step()
	m.hostSteps++
	if !m.fired && IsHostKind(m.faultKind) && m.faultAt == m.hostSteps {
		m.fired = true
		m.FiredCtx = m.ctxSig()
		m.raise(m.faultValue())
	}
	if m.fired && !m.fired2 && IsHostKind(m.fault2Kind) && m.fault2At == m.hostSteps {
		m.fired2 = true
		m.Fired2Ctx = m.ctxSig()
		m.raise(faultValueOf(m.fault2Kind))
	}
}

func (m *Machine) raise(v Value) {
	panic(&luaError{val: v, depth: len(m.cur.frames)})
}

func (m *Machine) curLine() int {
	if n := len(m.cur.frames); n > 0 {
		return m.cur.frames[n-1].line
	}
	return 0
}

func (m *Machine) where(level int) string {
	// level 1: current Lua function's current line; level 2: its caller's.
	n := len(m.cur.frames)
	idx := n - level
	if idx < 0 || idx >= n {
		return ""
	}
	return fmt.Sprintf("%s:%d: ", m.chunkName, m.cur.frames[idx].line)
}

// rtError raises a runtime fault positioned at the current line.
func (m *Machine) rtError(what string) {
	m.raise(m.where(1) + "\x00rt " + what)
}

// ---- value helpers ----

func truthy(v Value) bool { return !(v == nil || v == false) }

func typeName(v Value) string {
	switch v.(type) {
	case nil:
		return "nil"
	case bool:
		return "boolean"
	case float64:
		return "number"
	case string:
		return "string"
	case *Table:
		return "table"
	case *Closure, *Builtin:
		return "function"
	case *Coroutine:
		return "thread"
	}
	return "userdata"
}

// FormatNumber renders a number the way Lua's %.14g does.
func FormatNumber(f float64) string {
	if f == 0 {
		return "0" // the sign of zero is not observed (constant handling of -0 is C01's business)
	}
	if f == math.Trunc(f) && math.Abs(f) < 1e15 {
		return strconv.FormatFloat(f, 'f', 0, 64)
	}
	return strconv.FormatFloat(f, 'g', 14, 64)
}

func rawEqual(a, b Value) bool { return a == b }

func (m *Machine) id(kind int, v Value) int {
	if id, ok := m.ids[v]; ok {
		return id
	}
	m.nextID[kind]++
	m.ids[v] = m.nextID[kind]
	return m.nextID[kind]
}

// render gives the canonical trace rendering of a value (DESIGN B.1).
func (m *Machine) render(v Value) string {
	switch x := v.(type) {
	case nil:
		return "nil"
	case bool:
		if x {
			return "true"
		}
		return "false"
	case float64:
		return FormatNumber(x)
	case string:
		return NormalizeString(x)
	case *Table:
		return fmt.Sprintf("T#%d", m.id(0, v))
	case *Closure, *Builtin:
		return fmt.Sprintf("F#%d", m.id(1, v))
	case *Coroutine:
		return fmt.Sprintf("C#%d", m.id(2, v))
	}
	return "?"
}

// NormalizeString is applied to every string on both sides (VM trace and model
// trace) before comparison (DESIGN B.2): message wording is not compared, only
// position, identity of intended messages, and the class of everything else.
func NormalizeString(s string) string {
	if strings.Contains(s, FaultMarker) {
		return "<fault>"
	}
	// strip leading position prefixes "name:N: "
	rest := s
	line := -1
	lines := ""
	for {
		i := strings.Index(rest, ": ")
		if i < 0 {
			break
		}
		pre := rest[:i]
		j := strings.LastIndex(pre, ":")
		if j < 0 {
			break
		}
		num := pre[j+1:]
		if num == "" || strings.ContainsAny(pre[:j], " \t") {
			break
		}
		n, err := strconv.Atoi(num)
		if err != nil {
			break
		}
		line = n
		lines += fmt.Sprintf("@%d", n) // every position prefix counts (a message raised again gains another one)
		rest = rest[i+2:]
	}
	plain := isPlain(rest)
	if plain && strings.HasPrefix(rest, "L2") {
		// level-2 messages: which frame is named (or none, under a host
		// function) is C17's business; only the message is compared
		return "~" + rest
	}
	switch {
	case line >= 0 && plain:
		return lines + ":" + rest
	case line >= 0:
		// run-time faults and library errors: the line is not compared (C17 is
		// not claimed and library errors have no defined position)
		return "<rt>"
	case plain:
		return "'" + rest + "'"
	default:
		return "<rt>"
	}
}

// isPlain: strings that generated programs can build themselves.
func isPlain(s string) bool {
	if len(s) > 200 {
		return false
	}
	for i := 0; i < len(s); i++ {
		c := s[i]
		if !(c == '_' || c == '.' || c == '#' || c == '-' || c == '+' || c == '%' || (c >= 'a' && c <= 'z') || (c >= 'A' && c <= 'Z') || (c >= '0' && c <= '9')) {
			return false
		}
	}
	return true
}

// ---- running ----

// Options of a model run.
type Options struct {
	FaultKind int
	FaultAt   int64 // micro-step (or host-call micro-step for host kinds); 0 = none
	// a second fault, which fires only after the first one has (Fault2At counts micro-steps, or host-call micro-steps
	// for host kinds, from the start of the run like FaultAt); 0 = none
	Fault2Kind int
	Fault2At   int64
	StoreRTL   bool
	MaxSteps   int64
}

// Run executes the program from a fresh machine.
func Run(p *ir.Program, opt Options) *Result {
	m := &Machine{ids: map[Value]int{}, faultKind: opt.FaultKind, faultAt: opt.FaultAt, fault2Kind: opt.Fault2Kind, fault2At: opt.Fault2At, StoreRTL: opt.StoreRTL, MaxSteps: opt.MaxSteps, chunkName: ir.ChunkName}
	if opt.FaultAt == 0 {
		m.faultKind = FaultNone
	}
	m.Globals = NewTable()
	m.root = newScope(nil)
	m.installPrelude()
	m.main = &thread{}
	m.cur = m.main
	chunk := &Closure{Def: &ir.FuncDef{Body: p.Body}, Env: m.root, Fenv: m.Globals}
	func() {
		defer func() {
			if r := recover(); r != nil {
				switch e := r.(type) {
				case *luaError:
					m.TopError = m.render(e.val)
				case cancelSignal:
					m.TopError = "<cancelled>"
				case runawaySignal:
					m.Runaway = true
				default:
					panic(r)
				}
			}
		}()
		m.callClosure(chunk, nil)
	}()
	m.killAll()
	res := &Result{Trace: m.Trace, Steps: m.steps, HostSteps: m.hostSteps, Fired: m.fired, Fired2: m.fired2, FiredCtx: m.FiredCtx, Fired2Ctx: m.Fired2Ctx, TopError: m.TopError, Cancelled: m.Cancelled, Runaway: m.Runaway}
	res.TraceHash = HashTrace(m.Trace, m.TopError)
	return res
}

// HashTrace hashes a trace together with the top-level outcome.
func HashTrace(trace []string, topErr string) uint64 {
	h := uint64(14695981039346656037)
	add := func(s string) {
		for i := 0; i < len(s); i++ {
			h = (h ^ uint64(s[i])) * 1099511628211
		}
		h = (h ^ 0xff) * 1099511628211
	}
	for _, s := range trace {
		add(s)
	}
	add("|TOP|")
	add(topErr)
	return h
}

type ctl int

const (
	ctlNone ctl = iota
	ctlBreak
	ctlReturn
	ctlGoto
)

type flow struct {
	c     ctl
	vals  []Value
	label string
}

// callClosure runs a Lua closure with arguments and returns its results.
func (m *Machine) callClosure(cl *Closure, args []Value) []Value {
	for {
		sc := newScope(cl.Env)
		for i, p := range cl.Def.Params {
			var v Value
			if i < len(args) {
				v = args[i]
			}
			sc.declare(p, v)
		}
		if cl.Def.IsVararg {
			var extra []Value
			if len(args) > len(cl.Def.Params) {
				extra = append(extra, args[len(cl.Def.Params):]...)
			}
			sc.declare("...", extra)
		}
		fr := &frame{cl: cl, line: cl.Def.Line}
		th := m.cur
		th.frames = append(th.frames, fr)
		m.step() // function entry after parameter binding
		f := m.execBlock(cl.Def.Body, sc, fr)
		m.step() // the return instruction itself (still inside the callee)
		// pop the frame (on error the frames are cut by the catcher)
		th = m.cur
		th.frames = th.frames[:len(th.frames)-1]
		switch f.c {
		case ctlReturn:
			if f.label == "tail" {
				// proper tail call: callee replaces this activation
				fn := f.vals[0]
				targs := f.vals[1:]
				if c2, ok := fn.(*Closure); ok {
					cl, args = c2, targs
					continue
				}
				return m.call(fn, targs)
			}
			return f.vals
		case ctlGoto:
			panic("model: goto out of function: " + f.label)
		}
		return nil
	}
}

// call calls any callable value.
func (m *Machine) call(fn Value, args []Value) []Value {
	switch f := fn.(type) {
	case *Closure:
		return m.callClosure(f, args)
	case *Builtin:
		return f.Fn(m, args)
	case *Table:
		if f.Meta != nil {
			if h := f.Meta.Get("__call"); h != nil {
				m.pushCtx("callmeta")
				defer m.popCtx()
				return m.call(h, append([]Value{fn}, args...))
			}
		}
	}
	m.rtError("attempt to call a " + typeName(fn) + " value")
	return nil
}

func (m *Machine) execBlock(body []ir.Stmt, sc *Scope, fr *frame) flow {
	f, _ := m.execBlockS(body, sc, fr)
	return f
}

// execBlockS also returns the scope at the end of the block (repeat-until
// evaluates its condition there). Every local declaration opens a new scope
// level, so closures created earlier keep resolving names lexically.
func (m *Machine) execBlockS(body []ir.Stmt, sc *Scope, fr *frame) (flow, *Scope) {
	i := 0
	at := make([]*Scope, len(body)) // the scope in effect when statement i was (last) reached
	for i < len(body) {
		at[i] = sc
		switch d := body[i].(type) {
		case *ir.Local:
			sc = newScope(sc)
		case *ir.Call:
			if len(d.Names) > 0 {
				sc = newScope(sc)
			}
		}
		f := m.execStmt(body[i], sc, fr)
		switch f.c {
		case ctlNone:
			i++
		case ctlGoto:
			// label in this block?
			found := -1
			for j, s := range body {
				if l, ok := s.(*ir.Label); ok && l.Name == f.label {
					found = j
					break
				}
			}
			if found < 0 {
				return f, sc
			}
			// Lua 5.2-style goto: jumping backward to a label restarts the
			// locals declared after it; jumping forward may not enter the scope
			// of a local (the generator never does). Locals declared after the
			// label in this block are dropped when jumping backward.
			if found <= i {
				// the locals declared after the label go out of scope: names they shadowed are
				// visible again, and re-execution declares fresh variables
				sc = at[found]
			}
			i = found + 1
		default:
			return f, sc
		}
	}
	return flow{}, sc
}

func (m *Machine) assignTo(t ir.Expr, v Value, sc *Scope, fr *frame, pre []Value) {
	switch x := t.(type) {
	case ir.Var:
		m.step()
		if c := sc.lookup(x.Name); c != nil {
			c.V = v
		} else {
			m.setIndex(fr.cl.Fenv, x.Name, v)
		}
	case ir.Index:
		m.step()
		m.setIndex(pre[0], pre[1], v)
	default:
		panic("model: bad assignment target")
	}
}

func (m *Machine) bindCallResults(x *ir.Call, res []Value, sc *Scope, fr *frame, pres [][]Value) {
	get := func(i int) Value {
		if i < len(res) {
			return res[i]
		}
		return nil
	}
	switch {
	case len(x.Names) > 0:
		for i, n := range x.Names {
			sc.declare(n, get(i))
		}
	case len(x.Targets) > 0:
		order := make([]int, len(x.Targets))
		for i := range order {
			order[i] = i
		}
		if m.StoreRTL {
			for i, j := 0, len(order)-1; i < j; i, j = i+1, j-1 {
				order[i], order[j] = order[j], order[i]
			}
		}
		for _, i := range order {
			m.assignTo(x.Targets[i], get(i), sc, fr, pres[i])
		}
	}
}

func (m *Machine) evalTargetsPre(ts []ir.Expr, sc *Scope, fr *frame) [][]Value {
	pres := make([][]Value, len(ts))
	for i, t := range ts {
		if ix, ok := t.(ir.Index); ok {
			pres[i] = []Value{m.eval(ix.Obj, sc, fr), m.eval(ix.Key, sc, fr)}
		}
	}
	return pres
}

func (m *Machine) execStmt(s ir.Stmt, sc *Scope, fr *frame) flow {
	switch x := s.(type) {
	case *ir.Local:
		fr.line = x.Line
		m.step()
		if len(x.Exprs) == 1 {
			if fe, ok := x.Exprs[0].(ir.Func); ok {
				if x.Rec {
					c := sc.declare(x.Names[0], nil)
					c.V = &Closure{Def: fe.F, Env: sc, Fenv: fr.cl.Fenv}
				} else {
					// `local name = function`: the name is not in scope inside the function; a mention of it there
					// is the variable of that name declared earlier, or a global (sc is the scope level opened for
					// this statement, its parent the one before it)
					env := sc
					if sc.vars == nil && sc.parent != nil {
						env = sc.parent
					}
					cl := &Closure{Def: fe.F, Env: env, Fenv: fr.cl.Fenv}
					sc.declare(x.Names[0], cl)
				}
				return flow{}
			}
		}
		if fe, ok := x.Exprs0().(ir.Func); ok && len(x.Exprs) > 1 {
			// none of the declared names is in scope inside the function or the other initialisers
			// (sc is the scope level execBlockS opened for this statement; the function closes over the one before it)
			if sc.vars != nil || sc.parent == nil {
				panic("model: a Local statement must start a fresh scope level")
			}
			cl := &Closure{Def: fe.F, Env: sc.parent, Fenv: fr.cl.Fenv}
			fr.line = fe.F.EndLine
			m.step()
			vals := m.evalList(x.Exprs[1:], sc, fr, len(x.Names)-1)
			sc.declare(x.Names[0], cl)
			for i, n := range x.Names[1:] {
				sc.declare(n, vals[i])
			}
			return flow{}
		}
		vals := m.evalList(x.Exprs, sc, fr, len(x.Names))
		for i, n := range x.Names {
			sc.declare(n, vals[i])
		}
	case *ir.FuncStmt:
		fr.line = x.Line
		m.step()
		m.assignTo(ir.Var{Name: x.Name}, &Closure{Def: x.F, Env: sc, Fenv: fr.cl.Fenv}, sc, fr, nil)
	case *ir.Assign:
		fr.line = x.Line
		m.step()
		pres := m.evalTargetsPre(x.Targets, sc, fr)
		vals := m.evalList(x.Exprs, sc, fr, len(x.Targets))
		if len(x.Targets) == 1 {
			m.assignTo(x.Targets[0], vals[0], sc, fr, pres[0])
		} else if m.StoreRTL {
			for i := len(x.Targets) - 1; i >= 0; i-- {
				m.assignTo(x.Targets[i], vals[i], sc, fr, pres[i])
			}
		} else {
			for i := range x.Targets {
				m.assignTo(x.Targets[i], vals[i], sc, fr, pres[i])
			}
		}
	case *ir.Call:
		fr.line = x.Line
		m.step()
		pres := m.evalTargetsPre(x.Targets, sc, fr)
		fn, args := m.evalCall(x.Fn, x.Method, x.Args, sc, fr)
		res := m.call(fn, args)
		fr.line = x.Line
		m.step() // result delivery
		m.bindCallResults(x, res, sc, fr, pres)
	case *ir.If:
		for i, c := range x.Conds {
			fr.line = x.CondLines[i]
			m.step()
			if truthy(m.eval(c, sc, fr)) {
				return m.execBlock(x.Blocks[i], newScope(sc), fr)
			}
		}
		if x.HasElse {
			return m.execBlock(x.Else, newScope(sc), fr)
		}
	case *ir.While:
		for {
			fr.line = x.Line
			m.step()
			if !truthy(m.eval(x.Cond, sc, fr)) {
				break
			}
			f := m.execBlock(x.Body, newScope(sc), fr)
			if f.c == ctlBreak {
				break
			}
			if f.c != ctlNone {
				return f
			}
		}
	case *ir.Repeat:
		for {
			fr.line = x.Line
			m.step()
			f, bs := m.execBlockS(x.Body, newScope(sc), fr)
			if f.c == ctlBreak {
				break
			}
			if f.c != ctlNone {
				return f
			}
			fr.line = x.EndLine
			m.step()
			if truthy(m.eval(x.Cond, bs, fr)) {
				break
			}
		}
	case *ir.NumFor:
		fr.line = x.Line
		m.step()
		from := m.eval(x.From, sc, fr)
		to := m.eval(x.To, sc, fr)
		var stepv Value = float64(1)
		if x.Step != nil {
			stepv = m.eval(x.Step, sc, fr)
		}
		a, ok1 := from.(float64)
		b, ok2 := to.(float64)
		st, ok3 := stepv.(float64)
		if !ok1 || !ok2 || !ok3 {
			m.rtError("'for' value must be a number")
		}
		if st == 0 {
			m.rtError("for step is zero")
		}
		for i := a; (st > 0 && i <= b) || (st < 0 && i >= b); i += st {
			fr.line = x.Line
			m.step()
			bs := newScope(sc)
			bs.declare(x.Var, i)
			f := m.execBlock(x.Body, bs, fr)
			if f.c == ctlBreak {
				break
			}
			if f.c != ctlNone {
				return f
			}
		}
	case *ir.GenFor:
		fr.line = x.Line
		m.step()
		var init []Value
		if x.Fn != nil {
			fn, args := m.evalCall(x.Fn, "", x.Args, sc, fr)
			init = m.call(fn, args)
			fr.line = x.Line
		} else {
			init = m.evalList(x.Exprs, sc, fr, 3)
		}
		get := func(i int) Value {
			if i < len(init) {
				return init[i]
			}
			return nil
		}
		f, st, ctlv := get(0), get(1), get(2)
		for {
			fr.line = x.Line
			m.step()
			m.pushCtx("iter")
			rs := m.call(f, []Value{st, ctlv})
			m.popCtx()
			fr.line = x.Line
			var first Value
			if len(rs) > 0 {
				first = rs[0]
			}
			if first == nil {
				break
			}
			ctlv = first
			bs := newScope(sc)
			for i, n := range x.Names {
				var v Value
				if i < len(rs) {
					v = rs[i]
				}
				bs.declare(n, v)
			}
			fl := m.execBlock(x.Body, bs, fr)
			if fl.c == ctlBreak {
				break
			}
			if fl.c != ctlNone {
				return fl
			}
		}
	case *ir.Do:
		fr.line = x.Line
		return m.execBlock(x.Body, newScope(sc), fr)
	case *ir.Break:
		fr.line = x.Line
		m.step()
		return flow{c: ctlBreak}
	case *ir.Goto:
		fr.line = x.Line
		m.step()
		return flow{c: ctlGoto, label: x.Label}
	case *ir.Label:
	case *ir.Return:
		fr.line = x.Line
		m.step()
		vals := m.evalList(x.Exprs, sc, fr, -1)
		return flow{c: ctlReturn, vals: vals}
	case *ir.ReturnCall:
		fr.line = x.Line
		m.step()
		fn, args := m.evalCall(x.Fn, "", x.Args, sc, fr)
		switch f := fn.(type) {
		case *Closure, *Builtin:
		case *Table:
			if f.Meta == nil || f.Meta.Get("__call") == nil {
				m.rtError("attempt to call a table value")
			}
		default:
			// the error is raised while the calling frame still exists
			m.rtError("attempt to call a " + typeName(fn) + " value")
		}
		return flow{c: ctlReturn, label: "tail", vals: append([]Value{fn}, args...)}
	default:
		panic(fmt.Sprintf("model: unknown stmt %T", s))
	}
	return flow{}
}

func (m *Machine) evalCall(fnE ir.Expr, method string, argEs []ir.Expr, sc *Scope, fr *frame) (Value, []Value) {
	fn := m.eval(fnE, sc, fr)
	var args []Value
	if method != "" {
		obj := fn
		fn = m.index(obj, method)
		args = append(args, obj)
	}
	for i, a := range argEs {
		if _, ok := a.(ir.Vararg); ok && i == len(argEs)-1 {
			if c := sc.lookup("..."); c != nil {
				args = append(args, c.V.([]Value)...)
			}
			continue
		}
		args = append(args, m.eval(a, sc, fr))
	}
	return fn, args
}

// evalList evaluates an expression list adjusted to n values (n<0: all).
func (m *Machine) evalList(es []ir.Expr, sc *Scope, fr *frame, n int) []Value {
	var vals []Value
	for i, e := range es {
		if _, ok := e.(ir.Vararg); ok {
			var va []Value
			if c := sc.lookup("..."); c != nil {
				va = c.V.([]Value)
			}
			if i == len(es)-1 {
				vals = append(vals, va...)
			} else if len(va) > 0 {
				vals = append(vals, va[0])
			} else {
				vals = append(vals, nil)
			}
			continue
		}
		vals = append(vals, m.eval(e, sc, fr))
	}
	if n >= 0 {
		for len(vals) < n {
			vals = append(vals, nil)
		}
		vals = vals[:n]
	}
	return vals
}

func toNumber(v Value) (float64, bool) {
	switch x := v.(type) {
	case float64:
		return x, true
	case string:
		s := strings.TrimSpace(x)
		if f, err := strconv.ParseFloat(s, 64); err == nil && !strings.ContainsAny(s, "nNiI_") {
			return f, true
		}
	}
	return 0, false
}

func (m *Machine) eval(e ir.Expr, sc *Scope, fr *frame) Value {
	switch x := e.(type) {
	case ir.Nil:
		return nil
	case ir.True:
		return true
	case ir.False:
		return false
	case ir.Num:
		return x.V
	case ir.Str:
		return x.V
	case ir.Var:
		if c := sc.lookup(x.Name); c != nil {
			return c.V
		}
		return m.index(fr.cl.Fenv, x.Name)
	case ir.Vararg:
		if c := sc.lookup("..."); c != nil {
			if va := c.V.([]Value); len(va) > 0 {
				return va[0]
			}
		}
		return nil
	case ir.Index:
		obj := m.eval(x.Obj, sc, fr)
		key := m.eval(x.Key, sc, fr)
		return m.index(obj, key)
	case ir.Un:
		v := m.eval(x.X, sc, fr)
		switch x.Op {
		case "not":
			return !truthy(v)
		case "#":
			switch y := v.(type) {
			case string:
				return float64(len(y))
			case *Table:
				return float64(y.Len())
			}
			m.rtError("attempt to get length of a " + typeName(v) + " value")
		case "-":
			if f, ok := toNumber(v); ok {
				return -f
			}
			m.rtError("attempt to perform arithmetic on a " + typeName(v) + " value")
		}
		panic("model: bad unary op " + x.Op)
	case ir.Bin:
		switch x.Op {
		case "and":
			l := m.eval(x.L, sc, fr)
			if !truthy(l) {
				return l
			}
			return m.eval(x.R, sc, fr)
		case "or":
			l := m.eval(x.L, sc, fr)
			if truthy(l) {
				return l
			}
			return m.eval(x.R, sc, fr)
		}
		l := m.eval(x.L, sc, fr)
		r := m.eval(x.R, sc, fr)
		switch x.Op {
		case "+", "-", "*":
			a, ok1 := toNumber(l)
			b, ok2 := toNumber(r)
			if ok1 && ok2 {
				switch x.Op {
				case "+":
					return a + b
				case "-":
					return a - b
				default:
					return a * b
				}
			}
			ev := map[string]string{"+": "__add", "-": "__sub", "*": "__mul"}[x.Op]
			if h := m.binHandler(l, r, ev); h != nil {
				m.pushCtx("meta")
				rs := m.call(h, []Value{l, r})
				m.popCtx()
				if len(rs) > 0 {
					return rs[0]
				}
				return nil
			}
			m.rtError("attempt to perform arithmetic on a non-number value")
		case "..":
			ls, ok1 := concatStr(l)
			rs, ok2 := concatStr(r)
			if ok1 && ok2 {
				return ls + rs
			}
			if h := m.binHandler(l, r, "__concat"); h != nil {
				m.pushCtx("meta")
				out := m.call(h, []Value{l, r})
				m.popCtx()
				if len(out) > 0 {
					return out[0]
				}
				return nil
			}
			m.rtError("attempt to concatenate a non-string value")
		case "==":
			return rawEqual(l, r)
		case "~=":
			return !rawEqual(l, r)
		case "<", "<=", ">", ">=":
			if x.Op == ">" {
				l, r = r, l
			} else if x.Op == ">=" {
				l, r = r, l
			}
			lt := x.Op == "<" || x.Op == ">"
			if a, ok := l.(float64); ok {
				if b, ok := r.(float64); ok {
					if lt {
						return a < b
					}
					return a <= b
				}
			}
			if a, ok := l.(string); ok {
				if b, ok := r.(string); ok {
					if lt {
						return a < b
					}
					return a <= b
				}
			}
			m.rtError("attempt to compare " + typeName(l) + " with " + typeName(r))
		}
		panic("model: bad binary op " + x.Op)
	case ir.TableCons:
		t := NewTable()
		for i, a := range x.Arr {
			if _, ok := a.(ir.Vararg); ok && i == len(x.Arr)-1 {
				if c := sc.lookup("..."); c != nil {
					for j, v := range c.V.([]Value) {
						t.Set(float64(i+j+1), v)
					}
				}
				continue
			}
			t.Set(float64(i+1), m.eval(a, sc, fr))
		}
		for i, k := range x.Keys {
			t.Set(k, m.eval(x.Vals[i], sc, fr))
		}
		return t
	case ir.Func:
		return &Closure{Def: x.F, Env: sc, Fenv: fr.cl.Fenv}
	}
	panic(fmt.Sprintf("model: unknown expr %T", e))
}

func concatStr(v Value) (string, bool) {
	switch x := v.(type) {
	case string:
		return x, true
	case float64:
		return FormatNumber(x), true
	}
	return "", false
}

func (m *Machine) binHandler(l, r Value, ev string) Value {
	if t, ok := l.(*Table); ok && t.Meta != nil {
		if h := t.Meta.Get(ev); h != nil {
			return h
		}
	}
	if t, ok := r.(*Table); ok && t.Meta != nil {
		if h := t.Meta.Get(ev); h != nil {
			return h
		}
	}
	return nil
}

func normKey(k Value) Value { return k }

func (m *Machine) index(obj, key Value) Value {
	for depth := 0; depth < 50; depth++ {
		t, ok := obj.(*Table)
		if !ok {
			if s, isStr := obj.(string); isStr {
				_ = s
				// string methods are not part of SimLua
			}
			m.rtError("attempt to index a " + typeName(obj) + " value")
		}
		if v := t.Get(normKey(key)); v != nil {
			return v
		}
		if t.Meta == nil {
			return nil
		}
		h := t.Meta.Get("__index")
		if h == nil {
			return nil
		}
		switch hh := h.(type) {
		case *Closure, *Builtin:
			m.pushCtx("meta")
			rs := m.call(hh, []Value{obj, key})
			m.popCtx()
			if len(rs) > 0 {
				return rs[0]
			}
			return nil
		default:
			obj = h
		}
	}
	m.rtError("loop in gettable")
	return nil
}

func (m *Machine) setIndex(obj, key, val Value) {
	for depth := 0; depth < 50; depth++ {
		t, ok := obj.(*Table)
		if !ok {
			m.rtError("attempt to index a " + typeName(obj) + " value")
		}
		if t.Get(key) != nil || t.Meta == nil || t.Meta.Get("__newindex") == nil {
			if key == nil {
				m.rtError("table index is nil")
			}
			if f, ok := key.(float64); ok && f != f {
				m.rtError("table index is NaN")
			}
			t.Set(key, val)
			return
		}
		h := t.Meta.Get("__newindex")
		switch hh := h.(type) {
		case *Closure, *Builtin:
			m.pushCtx("meta")
			m.call(hh, []Value{obj, key, val})
			m.popCtx()
			return
		default:
			obj = h
		}
	}
	m.rtError("loop in settable")
}

// SortedKeys is a debugging helper.
func (t *Table) SortedKeys() []string {
	var ks []string
	for k := range t.hash {
		ks = append(ks, fmt.Sprint(k))
	}
	sort.Strings(ks)
	return ks
}

// ---- sessions: a host-side scheduler drives model coroutines (cosched driver A) ----

// Session keeps a machine alive after the chunk has run, so that a host-side
// schedule can create and resume coroutines over the chunk's global functions.
type Session struct {
	m   *Machine
	cos []*Coroutine
}

// SessionResult is what one host-side resume returned.
type SessionResult struct {
	State string // yield | ok | error | refused
	Vals  []string
}

// RunSchedule runs the chunk and then a host-side schedule. step i resumes the
// coroutine over global function fn[i] (created on first use) with the given
// numeric arguments. It returns the combined transcript (emits interleaved with
// one line per schedule step). A fault (opt) may strike anywhere.
func RunSchedule(p *ir.Program, bodies []string, sched [][]float64, schedWho []int, opt Options) *Result {
	m := &Machine{ids: map[Value]int{}, faultKind: opt.FaultKind, faultAt: opt.FaultAt, fault2Kind: opt.Fault2Kind, fault2At: opt.Fault2At, StoreRTL: opt.StoreRTL, MaxSteps: opt.MaxSteps, chunkName: ir.ChunkName}
	if opt.FaultAt == 0 {
		m.faultKind = FaultNone
	}
	m.Globals = NewTable()
	m.root = newScope(nil)
	m.installPrelude()
	m.main = &thread{}
	m.cur = m.main
	chunk := &Closure{Def: &ir.FuncDef{Body: p.Body}, Env: m.root, Fenv: m.Globals}
	guard := func(f func()) (failed bool) {
		defer func() {
			if r := recover(); r != nil {
				failed = true
				switch e := r.(type) {
				case *luaError:
					m.TopError = m.render(e.val)
				case cancelSignal:
					m.TopError = "<cancelled>"
				case runawaySignal:
					m.Runaway = true
				default:
					panic(r)
				}
			}
		}()
		f()
		return false
	}
	if guard(func() { m.callClosure(chunk, nil) }) {
		m.Trace = append(m.Trace, "CHUNK-ERROR:"+m.TopError)
		m.TopError = ""
	}
	cos := make([]*Coroutine, len(bodies))
	for i, who := range schedWho {
		if m.Runaway {
			break
		}
		if cos[who] == nil {
			cos[who] = m.newCoroutine(m.Globals.Get(bodies[who]), false)
		}
		co := cos[who]
		args := make([]Value, len(sched[i]))
		for j, a := range sched[i] {
			args[j] = a
		}
		var line string
		// a fault may also strike "in the scheduler" (between resumes): it is then a top-level error of that step
		failed := guard(func() {
			m.main.frames = m.main.frames[:0]
			m.cur = m.main
			ok, vals, refused := m.resume(co, args)
			m.cur = m.main
			switch {
			case refused != "":
				line = "refused"
			case !ok:
				line = "error:" + m.render(vals[0])
			case co.status == "dead":
				line = "ok:" + m.renderList(vals)
			default:
				line = "yield:" + m.renderList(vals)
			}
		})
		if failed {
			line = "toperror:" + m.TopError
			m.TopError = ""
			m.cur = m.main
		}
		var sts []string
		for _, c := range cos {
			if c == nil {
				sts = append(sts, "-")
			} else {
				sts = append(sts, c.status)
			}
		}
		m.Trace = append(m.Trace, fmt.Sprintf("S%d:co%d:%s|%s", i, who, line, strings.Join(sts, ",")))
	}
	m.killAll()
	res := &Result{Trace: m.Trace, Steps: m.steps, HostSteps: m.hostSteps, Fired: m.fired, Fired2: m.fired2, FiredCtx: m.FiredCtx, Fired2Ctx: m.Fired2Ctx, TopError: m.TopError, Cancelled: m.Cancelled, Runaway: m.Runaway}
	res.TraceHash = HashTrace(m.Trace, m.TopError)
	return res
}

func (m *Machine) renderList(vals []Value) string {
	parts := make([]string, len(vals))
	for i, v := range vals {
		parts[i] = m.render(v)
	}
	return strings.Join(parts, ",")
}
