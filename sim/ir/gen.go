package ir

import "fmt"

// Tape is the part of the choice tape the generator uses.
type Tape interface {
	Choose(n int) int
}

type vkind int

const (
	kNum vkind = iota
	kStr
	kBool
	kTab
	kFn
	kCo
	kAny
	kNil
	kSelf // a coroutine object obtained from coroutine.running() inside a body
)

type retT struct {
	k   vkind
	sig *fnSig
}

type fnSig struct {
	nparams int
	rets    []retT
	yields  bool
	cost    int
	wrap    bool // a coroutine.wrap function
}

type varInfo struct {
	name     string
	k        vkind
	sig      *fnSig
	global   bool
	readonly bool
	fnLevel  int // function nesting level of the declaration
	coOwner  int // id of the coroutine body in which a kCo var was created (0 = top level)
}

// Profile selects the emphasis of generated programs.
type Profile struct {
	Name     string
	MaxStmts int
	MaxEst   int
	Allow    map[string]bool // features that may be enabled
	Weights  map[string]int
	YieldFix int // >=0: every yield/resume/body uses exactly this many values
	Epilogue bool
	Disabled map[string]bool
}

var allFeatures = []string{"closure", "loop", "goto", "pcall", "xpcall", "error", "rtfault", "coroutine", "wrap", "meta", "sort", "gsub", "fenv", "hostcall", "hostpcall", "clobber", "multiassign", "tailcall", "shadow", "factory", "level2", "nested_yield", "tail_yield", "fieldcall", "selfstatus", "yield_boundary", "repetition"}

// ProfileFor returns the generator profile of an engine.
func ProfileFor(name string) *Profile {
	p := &Profile{Name: name, MaxStmts: 40, MaxEst: 1200, Allow: map[string]bool{}, Weights: map[string]int{}, YieldFix: 2, Epilogue: true}
	for _, f := range allFeatures {
		p.Allow[f] = true
	}
	p.Allow["yield_boundary"] = false
	w := p.Weights
	w["decl"], w["assign"], w["emit"], w["if"], w["loop"], w["do"], w["func"], w["call"] = 6, 6, 6, 3, 4, 1, 5, 5
	w["pcall"], w["xpcall"], w["error"], w["rtfault"], w["co"], w["meta"], w["sort"], w["gsub"], w["fenv"], w["host"], w["clobber"], w["goto"] = 4, 3, 2, 2, 4, 2, 1, 1, 1, 2, 2, 2
	switch name {
	case "closure":
		w["func"], w["loop"], w["goto"], w["clobber"], w["fenv"], w["call"] = 10, 8, 4, 4, 3, 8
		w["meta"], w["sort"], w["gsub"] = 1, 1, 1
	case "containment":
		w["pcall"], w["xpcall"], w["error"], w["rtfault"], w["host"] = 8, 6, 4, 3, 4
		p.Allow["yield_boundary"] = true
	case "coroutine":
		w["co"] = 14
		p.YieldFix = -1
		p.Allow["tail_yield"], p.Allow["nested_yield"], p.Allow["selfstatus"], p.Allow["yield_boundary"] = true, true, true, true
	case "cobodies":
		p.Allow["tail_yield"], p.Allow["nested_yield"], p.Allow["selfstatus"], p.Allow["yield_boundary"] = true, true, true, true
		w["co"] = 6
		p.YieldFix = -1
		p.MaxStmts = 12
	case "stream":
		p.MaxStmts = 25
		p.Epilogue = false
	case "cancel":
		p.MaxEst = 2500
	}
	return p
}

type scope struct {
	vars []*varInfo
}

type fctx struct {
	id         int // identity of the function body this context belongs to
	level      int
	inLoop     bool
	canYield   bool
	coID       int
	rets       []retT
	isFunc     bool
	protected  int
	yielded    bool
	inCallback bool // body invoked through a library/metamethod/iterator boundary: no yields
}

type gen struct {
	t       Tape
	p       *Profile
	prog    *Program
	scopes  []*scope
	n       int
	est     int
	mult    int
	on      map[string]bool
	stmts   int
	depth   int
	coSeq   int
	ctxSeq  int
	nloc    int // live locals of the function being generated (approximate upper bound)
	locSave []int
	globals []*varInfo
}

func (g *gen) ch(n int) int         { return g.t.Choose(n) }
func (g *gen) chance(a, b int) bool { return g.t.Choose(b) >= b-a }
func (g *gen) feat(f string) bool   { return g.on[f] }
func (g *gen) use(f string)         { g.prog.Features[f]++ }

func (g *gen) fresh(prefix string) string {
	g.n++
	return fmt.Sprintf("%s%d", prefix, g.n)
}

func (g *gen) push() {
	g.scopes = append(g.scopes, &scope{})
	g.locSave = append(g.locSave, g.nloc)
}
func (g *gen) pop() {
	g.scopes = g.scopes[:len(g.scopes)-1]
	g.nloc = g.locSave[len(g.locSave)-1]
	g.locSave = g.locSave[:len(g.locSave)-1]
}
func (g *gen) declare(v *varInfo) *varInfo {
	s := g.scopes[len(g.scopes)-1]
	s.vars = append(s.vars, v)
	return v
}

// visible returns the visible variables of kind k (inner declarations shadow outer ones).
func (g *gen) visible(pred func(*varInfo) bool) []*varInfo {
	seen := map[string]bool{}
	var out []*varInfo
	for i := len(g.scopes) - 1; i >= 0; i-- {
		vs := g.scopes[i].vars
		for j := len(vs) - 1; j >= 0; j-- {
			v := vs[j]
			if seen[v.name] {
				continue
			}
			seen[v.name] = true
			if pred(v) {
				out = append(out, v)
			}
		}
	}
	for _, v := range g.globals {
		if !seen[v.name] && pred(v) {
			seen[v.name] = true
			out = append(out, v)
		}
	}
	return out
}

func (g *gen) pick(k vkind) *varInfo {
	vs := g.visible(func(v *varInfo) bool { return v.k == k })
	if len(vs) == 0 {
		return nil
	}
	// bias toward recent declarations
	if len(vs) > 3 && g.ch(2) == 0 {
		return vs[g.ch(3)]
	}
	return vs[g.ch(len(vs))]
}

var strConsts = []string{"a", "b", "k1", "xy", "s_2", "q", "Zz", "m.n", ""}

func (g *gen) numExpr(d int) Expr {
	c := g.ch(10)
	if d <= 0 && c >= 5 {
		c = g.ch(5)
	}
	switch c {
	case 0, 1:
		return Num{float64(g.ch(10))}
	case 2:
		return Num{[]float64{-1, -3, 0.5, 1.5, 100, -0.5}[g.ch(6)]}
	case 3, 4:
		if v := g.pick(kNum); v != nil {
			return Var{v.name}
		}
		return Num{float64(g.ch(5))}
	case 5:
		return Bin{"+", g.numExpr(d - 1), g.numExpr(d - 1)}
	case 6:
		return Bin{"-", g.numExpr(d - 1), g.numExpr(d - 1)}
	case 7:
		return Bin{"*", g.numExpr(d - 1), Num{[]float64{-1, 0, 1, 2}[g.ch(4)]}}
	case 8:
		if v := g.pick(kTab); v != nil {
			switch g.ch(3) {
			case 0:
				return Un{"#", Var{v.name}}
			case 1:
				return Index{Var{v.name}, Str{[]string{"x", "y"}[g.ch(2)]}}
			default:
				return Index{Var{v.name}, Num{float64(1 + g.ch(3))}}
			}
		}
		return Num{7}
	default:
		if v := g.pick(kStr); v != nil {
			return Un{"#", Var{v.name}}
		}
		return Un{"-", g.numExpr(d - 1)}
	}
}

// strExpr: a string expression that mentions at most one string variable. The value may end up in a string variable
// (a declaration, a returned value, an assignment through another variable), and a statement that is executed
// repeatedly must make strings grow by a constant at most, never double them (`local t = s .. s; s = t` in a loop
// that runs 70 times exhausted the memory of a worker: a false alarm of the C12 check in `vp check` 4).
func (g *gen) strExpr(d int) Expr {
	vars := 1
	return g.strExprB(d, &vars)
}

func (g *gen) strExprB(d int, vars *int) Expr {
	c := g.ch(6)
	if d <= 0 && c >= 4 {
		c = g.ch(4)
	}
	switch c {
	case 0, 1:
		return Str{strConsts[g.ch(len(strConsts))]}
	case 2, 3:
		if v := g.pick(kStr); v != nil && *vars > 0 {
			*vars--
			return Var{v.name}
		}
		return Str{"d"}
	case 4:
		return Bin{"..", g.strExprB(d-1, vars), g.strExprB(d-1, vars)}
	default:
		return Bin{"..", g.strExprB(d-1, vars), Num{float64(g.ch(20))}}
	}
}

func (g *gen) boolExpr(d int) Expr {
	c := g.ch(9)
	if d <= 0 && c >= 5 {
		c = g.ch(5)
	}
	switch c {
	case 0:
		return True{}
	case 1:
		return False{}
	case 2:
		if v := g.pick(kBool); v != nil {
			return Var{v.name}
		}
		return True{}
	case 3:
		return g.cmp([]string{"<", "<=", ">", ">=", "==", "~="}[g.ch(6)], g.numExpr(d-1), g.numExpr(d-1), kNum)
	case 4:
		return g.cmp([]string{"==", "~=", "<"}[g.ch(3)], g.strExpr(d-1), g.strExpr(d-1), kStr)
	case 5:
		return Un{"not", g.boolNC(d - 1)}
	case 6:
		return Bin{"and", g.boolOperand(d - 1), g.boolOperand(d - 1)}
	case 7:
		return Bin{"or", g.boolOperand(d - 1), g.boolOperand(d - 1)}
	default:
		return Bin{"==", g.numVar(), g.anyAtom()}
	}
}

// boolNC is a boolean expression that is never a literal constant (constant
// operands of and/or/not hit a compiler defect outside the claimed properties:
// `local b = (true and true) and true` inside a loop miscompiles its jumps).
func (g *gen) boolNC(d int) Expr {
	for i := 0; i < 4; i++ {
		e := g.boolExpr(d)
		if isConstExpr(e) {
			continue
		}
		return e
	}
	return Bin{"<", g.numVar(), Num{5}}
}

// boolOperand is an operand of and/or: never constant and never a `not`
// (`x = (not a) and b` assigned to an existing local leaves x unchanged when
// `not a` is false - a compiler defect outside the claimed properties).
func (g *gen) boolOperand(d int) Expr {
	for i := 0; i < 6; i++ {
		e := g.boolNC(d)
		if u, ok := e.(Un); ok && u.Op == "not" {
			continue
		}
		if b, ok := e.(Bin); ok && (b.Op == "and" || b.Op == "or") {
			continue // nested logical operands hit the same compiler defect: `x = (a and b) and c` leaves x unchanged when (a and b) is false
		}
		return e
	}
	return Bin{"<", g.numVar(), Num{5}}
}

// isConstExpr: the expression mentions no variable (the compiler may fold it).
func isConstExpr(e Expr) bool {
	switch x := e.(type) {
	case Var, Index, Vararg, TableCons, Func:
		return false
	case Bin:
		return isConstExpr(x.L) && isConstExpr(x.R)
	case Un:
		return isConstExpr(x.X)
	}
	return true
}

// numVar names a numeric variable (the generator always declares v0 first).
func (g *gen) numVar() Expr {
	if v := g.pick(kNum); v != nil {
		return Var{v.name}
	}
	return Var{"v0"}
}

// cmp builds a comparison that is never constant-only (constant comparisons
// under not/and/or are miscompiled: `(not (0 < 5)) and (0 < 5)` yields true).
func (g *gen) cmp(op string, l, r Expr, k vkind) Expr {
	if isConstExpr(l) && isConstExpr(r) {
		if k == kNum {
			l = g.numVar()
		} else if v := g.pick(kStr); v != nil {
			l = Var{v.name}
		} else {
			l = Var{"s0"}
		}
	}
	return Bin{op, l, r}
}

func (g *gen) anyAtom() Expr {
	switch g.ch(5) {
	case 0:
		return Nil{}
	case 1:
		return g.numExpr(0)
	case 2:
		return g.strExpr(0)
	case 3:
		vs := g.visible(func(v *varInfo) bool { return true })
		if len(vs) > 0 {
			return Var{vs[g.ch(len(vs))].name}
		}
		return Nil{}
	default:
		return g.boolExpr(0)
	}
}

func (g *gen) exprOf(k vkind, d int) Expr {
	switch k {
	case kNum:
		return g.numExpr(d)
	case kStr:
		return g.strExpr(d)
	case kBool:
		return g.boolExpr(d)
	case kTab:
		return g.tabCons()
	}
	return g.anyAtom()
}

// nn makes sure a numeric expression stored into a table cannot be nil (it
// raises instead), so that the length border of generated tables is unique.
func nn(e Expr) Expr {
	switch e.(type) {
	case Num:
		return e
	}
	return Bin{"+", e, Num{0}}
}

func (g *gen) tabCons() Expr {
	return TableCons{Arr: []Expr{nn(g.numExpr(1)), nn(g.numExpr(0)), nn(g.numExpr(0))}, Keys: []string{"x", "y"}, Vals: []Expr{nn(g.numExpr(1)), nn(g.numExpr(0))}}
}

func (g *gen) cost(n int) { g.est += n * g.mult }

func (g *gen) tight() bool { return g.est > g.p.MaxEst || g.stmts > g.p.MaxStmts*3 || g.nloc > 110 }

// newLocal declares a fresh local; with the shadow feature it sometimes reuses a visible name of the same kind.
func (g *gen) newLocal(prefix string, k vkind, fc *fctx) *varInfo {
	name := g.fresh(prefix)
	if g.feat("shadow") && g.ch(12) == 0 {
		if v := g.pick(k); v != nil && !v.global && !v.readonly && k != kFn && k != kCo {
			name = v.name
			g.use("shadow")
		}
	}
	return &varInfo{name: name, k: k, fnLevel: fc.level}
}

// block generates a block of about n statements in a new scope.
func (g *gen) block(n int, fc *fctx) []Stmt {
	g.push()
	defer g.pop()
	return g.stmtsIn(n, fc)
}

func (g *gen) stmtsIn(n int, fc *fctx) []Stmt {
	var out []Stmt
	g.depth++
	for i := 0; i < n; i++ {
		if g.nloc > 125 {
			break // the VM's register limit per function
		}
		ss := g.stmt(fc)
		g.nloc += countLocals(ss)
		out = append(out, ss...)
	}
	g.depth--
	return out
}

var stmtKinds = []string{"decl", "assign", "emit", "if", "loop", "do", "func", "call", "pcall", "xpcall", "error", "rtfault", "co", "meta", "sort", "gsub", "fenv", "host", "clobber", "goto", "break"}

func (g *gen) stmt(fc *fctx) []Stmt {
	g.stmts++
	ws := make([]int, len(stmtKinds))
	for i, k := range stmtKinds {
		w := g.p.Weights[k]
		switch k {
		case "if", "loop", "do", "func", "pcall", "xpcall", "co", "meta", "sort", "gsub", "fenv", "goto":
			if g.depth > 4 || g.tight() {
				w = 0
			}
		}
		switch k {
		case "loop":
			if !g.feat("loop") || g.mult > 12 {
				w = 0
			}
		case "func":
			if !g.feat("closure") || fc.level >= 3 {
				w = 0
			}
		case "pcall":
			if !g.feat("pcall") {
				w = 0
			}
		case "xpcall":
			if !g.feat("xpcall") {
				w = 0
			}
		case "error":
			if !g.feat("error") || fc.protected == 0 {
				w = 0
			}
		case "rtfault":
			if !g.feat("rtfault") || fc.protected == 0 {
				w = 0
			}
		case "co":
			if !g.feat("coroutine") || fc.level >= 3 {
				w = 0
			}
		case "meta":
			if !g.feat("meta") {
				w = 0
			}
		case "sort":
			if !g.feat("sort") {
				w = 0
			}
		case "gsub":
			if !g.feat("gsub") {
				w = 0
			}
		case "fenv":
			if !g.feat("fenv") {
				w = 0
			}
		case "host":
			if !g.feat("hostcall") && !g.feat("hostpcall") {
				w = 0
			}
		case "clobber":
			if !g.feat("clobber") {
				w = 0
			}
		case "goto":
			if !g.feat("goto") {
				w = 0
			}
		case "break":
			// a break anywhere inside nested blocks of a loop body
			w = 0
			if fc.inLoop && g.feat("loop") {
				w = 2
			}
		}
		ws[i] = w
	}
	tot := 0
	for _, w := range ws {
		tot += w
	}
	r := g.ch(tot)
	kind := "emit"
	for i, w := range ws {
		if r < w {
			kind = stmtKinds[i]
			break
		}
		r -= w
	}
	g.cost(1)
	switch kind {
	case "decl":
		return g.sDecl(fc)
	case "assign":
		return g.sAssign(fc)
	case "emit":
		return g.sEmit(fc)
	case "if":
		return g.sIf(fc)
	case "loop":
		return g.sLoop(fc)
	case "do":
		return []Stmt{&Do{Body: g.block(1+g.ch(3), fc)}}
	case "func":
		return g.sFunc(fc)
	case "call":
		return g.sCall(fc)
	case "pcall":
		return g.sPcall(fc, false)
	case "xpcall":
		return g.sPcall(fc, true)
	case "error":
		return g.sError(fc)
	case "rtfault":
		return g.sRtFault(fc)
	case "co":
		return g.sCo(fc)
	case "meta":
		return g.sMeta(fc)
	case "sort":
		return g.sSort(fc)
	case "gsub":
		return g.sGsub(fc)
	case "fenv":
		return g.sFenv(fc)
	case "host":
		return g.sHost(fc)
	case "clobber":
		return g.sClobber(fc)
	case "goto":
		return g.sGoto(fc)
	case "break":
		g.use("break_nested")
		// always conditional: an unconditional break followed by (dead) statements runs into a jump-threading
		// defect of the compiler that is outside the claimed properties (the loop exit jumps to a wrong place)
		return []Stmt{&If{Conds: []Expr{g.boolNC(1)}, Blocks: [][]Stmt{{&Break{}}}}}
	}
	return g.sEmit(fc)
}

func (g *gen) sDecl(fc *fctx) []Stmt {
	k := []vkind{kNum, kNum, kStr, kBool, kTab, kNum}[g.ch(6)]
	if g.ch(6) == 0 {
		// a global
		name := g.fresh("G")
		e := g.exprOf(k, 1)
		g.globals = append(g.globals, &varInfo{name: name, k: k, global: true})
		return []Stmt{&Assign{Targets: []Expr{Var{name}}, Exprs: []Expr{e}}}
	}
	if g.ch(5) == 0 {
		// two locals at once
		e1, e2 := g.numExpr(1), g.strExpr(1)
		v1 := g.newLocal("v", kNum, fc)
		v2 := g.newLocal("s", kStr, fc)
		if v1.name == v2.name {
			v2.name = g.fresh("s")
		}
		g.declare(v1)
		g.declare(v2)
		return []Stmt{&Local{Names: []string{v1.name, v2.name}, Exprs: []Expr{e1, e2}}}
	}
	e := g.exprOf(k, 2)
	v := g.newLocal(map[vkind]string{kNum: "v", kStr: "s", kBool: "b", kTab: "t"}[k], k, fc)
	g.declare(v)
	return []Stmt{&Local{Names: []string{v.name}, Exprs: []Expr{e}}}
}

func (g *gen) assignable(k vkind) *varInfo {
	vs := g.visible(func(v *varInfo) bool { return v.k == k && !v.readonly })
	if len(vs) == 0 {
		return nil
	}
	return vs[g.ch(len(vs))]
}

func (g *gen) sAssign(fc *fctx) []Stmt {
	switch g.ch(6) {
	case 0: // table field / element
		if t := g.pick(kTab); t != nil {
			var tgt Expr
			switch g.ch(3) {
			case 0:
				tgt = Index{Var{t.name}, Str{[]string{"x", "y"}[g.ch(2)]}}
			case 1:
				tgt = Index{Var{t.name}, Num{float64(1 + g.ch(3))}}
			default:
				if t.readonly {
					tgt = Index{Var{t.name}, Str{"x"}}
				} else {
					tgt = Index{Var{t.name}, Bin{"+", Un{"#", Var{t.name}}, Num{1}}}
				}
			}
			return []Stmt{&Assign{Targets: []Expr{tgt}, Exprs: []Expr{nn(g.numExpr(1))}}}
		}
	case 1: // multiple assignment to two distinct variables
		if g.feat("multiassign") {
			a, b := g.assignable(kNum), g.assignable(kStr)
			if a != nil && b != nil && a.name != b.name {
				g.use("multiassign")
				g.prog.MultiAssign = true
				return []Stmt{&Assign{Targets: []Expr{Var{a.name}, Var{b.name}}, Exprs: []Expr{g.numExpr(1), Str{strConsts[g.ch(len(strConsts))]}}}}
			}
		}
	}
	k := []vkind{kNum, kNum, kStr, kBool}[g.ch(4)]
	if v := g.assignable(k); v != nil {
		e := g.exprOf(k, 2)
		if k == kStr {
			// assignments to string variables never concatenate variables: repeated
			// execution (loops, repeated calls) must not grow a string exponentially
			if g.ch(2) == 0 {
				if o := g.pick(kStr); o != nil {
					e = Var{o.name}
				} else {
					e = Str{"k"}
				}
			} else {
				e = Bin{"..", Str{strConsts[g.ch(len(strConsts))]}, Num{float64(g.ch(20))}}
			}
		}
		return []Stmt{&Assign{Targets: []Expr{Var{v.name}}, Exprs: []Expr{e}}}
	}
	return g.sDecl(fc)
}

func (g *gen) emitArgs(n int) []Expr {
	var out []Expr
	for i := 0; i < n; i++ {
		switch g.ch(4) {
		case 0:
			out = append(out, g.numExpr(1))
		case 1:
			out = append(out, g.strExpr(1))
		default:
			out = append(out, g.anyAtom())
		}
	}
	return out
}

func (g *gen) sEmit(fc *fctx) []Stmt {
	g.n++
	args := append([]Expr{Str{fmt.Sprintf("e%d", g.n)}}, g.emitArgs(1+g.ch(3))...)
	return []Stmt{&Call{Fn: Var{"emit"}, Args: args}}
}

func (g *gen) emitVars(tag string, names ...string) Stmt {
	args := []Expr{Str{tag}}
	for _, n := range names {
		args = append(args, Var{n})
	}
	return &Call{Fn: Var{"emit"}, Args: args}
}

func (g *gen) sIf(fc *fctx) []Stmt {
	s := &If{}
	n := 1 + g.ch(2)
	for i := 0; i < n; i++ {
		s.Conds = append(s.Conds, g.boolNC(2))
		s.Blocks = append(s.Blocks, g.block(1+g.ch(3), fc))
	}
	if g.ch(2) == 0 {
		s.HasElse = true
		s.Else = g.block(1+g.ch(2), fc)
	}
	return []Stmt{s}
}

func (g *gen) loopBody(n int, fc *fctx, extra func()) []Stmt {
	fc2 := *fc
	fc2.inLoop = true
	g.push()
	defer g.pop()
	if extra != nil {
		extra()
	}
	body := g.stmtsIn(n, &fc2)
	// optional conditional break / closure capture of loop state
	if g.ch(3) == 0 {
		body = append(body, &If{Conds: []Expr{g.boolNC(1)}, Blocks: [][]Stmt{{&Break{}}}})
		g.use("break")
	}
	fc.yielded = fc.yielded || fc2.yielded
	return body
}

func (g *gen) sLoop(fc *fctx) []Stmt {
	g.use("loop")
	iters := 2 + g.ch(3)
	oldMult := g.mult
	g.mult *= iters
	defer func() { g.mult = oldMult }()
	nb := 1 + g.ch(3)
	if g.feat("closure") && fc.level < 3 && g.ch(6) == 0 {
		return g.sCaptureBreak(fc, iters)
	}
	switch g.ch(7) {
	case 0, 1: // numeric for
		iv := g.fresh("i")
		var from, to, step Expr = Num{1}, Num{float64(iters)}, nil
		if g.ch(3) == 0 {
			from, to, step = Num{float64(iters)}, Num{1}, Num{-1}
		} else if g.ch(4) == 0 {
			step = Num{1}
		}
		body := g.loopBody(nb, fc, func() { g.declare(&varInfo{name: iv, k: kNum, readonly: true, fnLevel: fc.level}) })
		return []Stmt{&NumFor{Var: iv, From: from, To: to, Step: step, Body: body}}
	case 2: // while with a counter; optional continue-style goto
		iv := g.fresh("i")
		g.declare(&varInfo{name: iv, k: kNum, readonly: true, fnLevel: fc.level})
		var body []Stmt
		if g.feat("goto") && g.ch(2) == 0 {
			lbl := g.fresh("cont")
			g.use("goto_continue")
			inner := g.loopBody(nb, fc, nil)
			inner = append(inner, &If{Conds: []Expr{g.boolNC(1)}, Blocks: [][]Stmt{{&Goto{Label: lbl}}}})
			inner = append(inner, g.sEmit(fc)...)
			body = []Stmt{&Do{Body: inner}, &Label{Name: lbl}}
		} else {
			body = g.loopBody(nb, fc, nil)
		}
		body = append(body, &Assign{Targets: []Expr{Var{iv}}, Exprs: []Expr{Bin{"+", Var{iv}, Num{1}}}})
		return []Stmt{&Local{Names: []string{iv}, Exprs: []Expr{Num{0}}}, &While{Cond: Bin{"<", Var{iv}, Num{float64(iters)}}, Body: body}}
	case 3: // repeat; the condition uses a body local
		iv := g.fresh("i")
		dv := g.fresh("d")
		g.declare(&varInfo{name: iv, k: kNum, readonly: true, fnLevel: fc.level})
		body := g.loopBody(nb, fc, func() { g.declare(&varInfo{name: dv, k: kNum, fnLevel: fc.level}) })
		body = append([]Stmt{&Local{Names: []string{dv}, Exprs: []Expr{g.numExpr(1)}}}, body...)
		// break inside repeat bodies that declare dv first is fine; increment last
		body = append(body, &Assign{Targets: []Expr{Var{iv}}, Exprs: []Expr{Bin{"+", Var{iv}, Num{1}}}})
		cond := Bin{"or", Bin{">=", Var{iv}, Num{float64(iters)}}, Bin{">", Var{dv}, Num{100000}}}
		return []Stmt{&Local{Names: []string{iv}, Exprs: []Expr{Num{0}}}, &Repeat{Body: body, Cond: cond}}
	case 4: // ipairs over a fresh table
		tv := g.fresh("t")
		kv, vv := g.fresh("k"), g.fresh("v")
		g.declare(&varInfo{name: tv, k: kTab, readonly: true, fnLevel: fc.level})
		arr := []Expr{}
		for i := 0; i < iters; i++ {
			arr = append(arr, nn(g.numExpr(0)))
		}
		body := g.loopBody(nb, fc, func() {
			g.declare(&varInfo{name: kv, k: kNum, readonly: true, fnLevel: fc.level})
			g.declare(&varInfo{name: vv, k: kNum, fnLevel: fc.level})
		})
		return []Stmt{&Local{Names: []string{tv}, Exprs: []Expr{TableCons{Arr: arr, Keys: []string{"x", "y"}, Vals: []Expr{Num{1}, Num{2}}}}},
			&GenFor{Names: []string{kv, vv}, Fn: Var{"ipairs"}, Args: []Expr{Var{tv}}, Body: body}}
	case 5: // closure iterator
		if !g.feat("closure") {
			return g.sEmit(fc)
		}
		it := g.fresh("it")
		g.use("closure_iterator")
		sp, cp := g.fresh("s"), g.fresh("c")
		fbody := []Stmt{}
		if g.ch(2) == 0 {
			fbody = append(fbody, &Call{Fn: Var{"emit"}, Args: []Expr{Str{it}, Var{cp}}})
		}
		fbody = append(fbody, &If{Conds: []Expr{Bin{"<", Var{cp}, Var{sp}}}, Blocks: [][]Stmt{{&Return{Exprs: []Expr{Bin{"+", Var{cp}, Num{1}}}}}}})
		fd := &FuncDef{Params: []string{sp, cp}, Body: fbody}
		g.prog.NFuncs++
		g.declare(&varInfo{name: it, k: kAny, fnLevel: fc.level})
		iv := g.fresh("i")
		body := g.loopBody(nb, fc, func() { g.declare(&varInfo{name: iv, k: kNum, readonly: true, fnLevel: fc.level}) })
		return []Stmt{&Local{Names: []string{it}, Exprs: []Expr{Func{fd}}},
			&GenFor{Names: []string{iv}, Exprs: []Expr{Var{it}, Num{float64(iters)}, Num{0}}, Body: body}}
	default: // wrapped-coroutine generator driving for-in
		if !g.feat("wrap") || !g.feat("coroutine") || fc.level >= 3 {
			return g.sEmit(fc)
		}
		g.use("wrap_generator")
		gf, gw := g.fresh("gf"), g.fresh("gw")
		var gb []Stmt
		for i := 0; i < iters; i++ {
			gb = append(gb, &Call{Fn: Var{"coyield"}, Args: []Expr{Num{float64(10 + i)}}})
			if g.ch(3) == 0 {
				gb = append(gb, &Call{Fn: Var{"emit"}, Args: []Expr{Str{gf}, Num{float64(i)}}})
			}
		}
		fd := &FuncDef{Body: gb}
		g.prog.NFuncs++
		g.declare(&varInfo{name: gf, k: kAny, fnLevel: fc.level})
		g.declare(&varInfo{name: gw, k: kAny, fnLevel: fc.level})
		vv := g.fresh("v")
		body := g.loopBody(nb, fc, func() { g.declare(&varInfo{name: vv, k: kNum, readonly: true, fnLevel: fc.level}) })
		return []Stmt{&Local{Names: []string{gf}, Exprs: []Expr{Func{fd}}},
			&Call{Names: []string{gw}, Fn: Var{"cowrap"}, Args: []Expr{Var{gf}}},
			&GenFor{Names: []string{vv}, Exprs: []Expr{Var{gw}}, Body: body}}
	}
}

func (g *gen) sGoto(fc *fctx) []Stmt {
	switch g.ch(2) {
	case 0: // forward jump out of nested blocks
		lbl := g.fresh("out")
		g.use("goto_forward")
		inner := g.block(1+g.ch(2), fc)
		jump := &If{Conds: []Expr{g.boolNC(1)}, Blocks: [][]Stmt{{&Goto{Label: lbl}}}}
		var nested []Stmt
		if g.ch(2) == 0 {
			nested = []Stmt{&Do{Body: append(inner, jump)}}
		} else {
			nested = append(inner, jump)
		}
		nested = append(nested, g.sEmit(fc)...)
		return []Stmt{&Do{Body: nested}, &Label{Name: lbl}}
	default: // counted backward loop
		if g.mult > 12 {
			return g.sEmit(fc)
		}
		lbl := g.fresh("top")
		iv := g.fresh("i")
		g.use("goto_backward")
		iters := 2 + g.ch(2)
		oldMult := g.mult
		g.mult *= iters
		g.declare(&varInfo{name: iv, k: kNum, readonly: true, fnLevel: fc.level})
		var bodyS []Stmt
		if g.ch(2) == 0 {
			// the body's locals are declared directly in the label's block: every pass must get fresh ones
			g.use("goto_backward_flat")
			g.push()
			bodyS = g.stmtsIn(1+g.ch(2), fc)
			if g.feat("closure") {
				cv, cf, gn := g.fresh("cv"), g.fresh("cf"), g.fresh("GC")
				g.prog.NFuncs++
				fd := &FuncDef{ID: g.prog.NFuncs, Body: []Stmt{&Assign{Targets: []Expr{Var{cv}}, Exprs: []Expr{Bin{"+", Var{cv}, Num{1}}}}, &Return{Exprs: []Expr{Var{cv}}}}}
				bodyS = append(bodyS, &Local{Names: []string{cv}, Exprs: []Expr{Bin{"*", Var{iv}, Num{10}}}}, &Local{Names: []string{cf}, Exprs: []Expr{Func{fd}}},
					&Assign{Targets: []Expr{Index{Var{"GT"}, Bin{"+", Var{iv}, Num{1}}}}, Exprs: []Expr{Var{cf}}})
				_ = gn
			}
			g.pop()
		} else {
			bodyS = []Stmt{&Do{Body: g.block(1+g.ch(2), fc)}}
		}
		g.mult = oldMult
		out := append([]Stmt{&Local{Names: []string{iv}, Exprs: []Expr{Num{0}}}, &Label{Name: lbl}}, bodyS...)
		out = append(out,
			&Assign{Targets: []Expr{Var{iv}}, Exprs: []Expr{Bin{"+", Var{iv}, Num{1}}}},
			&If{Conds: []Expr{Bin{"<", Var{iv}, Num{float64(iters)}}}, Blocks: [][]Stmt{{&Goto{Label: lbl}}}})
		res := []Stmt{&Do{Body: out}}
		if g.prog.Features["goto_backward_flat"] > 0 && g.feat("closure") {
			// use the closures created in the passes: each must have its own variable
			r1, r2, r3 := g.fresh("gr"), g.fresh("gr"), g.fresh("gr")
			res = append(res, g.sClobberN(10)...)
			res = append(res,
				&Call{Names: []string{r1}, Fn: Index{Var{"GT"}, Num{1}}}, &Call{Names: []string{r2}, Fn: Index{Var{"GT"}, Num{2}}}, &Call{Names: []string{r3}, Fn: Index{Var{"GT"}, Num{1}}},
				g.emitVars("gtf", r1, r2, r3))
			res = []Stmt{&Do{Body: append([]Stmt{&Assign{Targets: []Expr{Var{"GT"}}, Exprs: []Expr{TableCons{}}}}, wrapPcall(g, res)...)}}
		}
		return res
	}
}

// countLocals: locals declared directly by these statements (not in nested blocks or functions).
func countLocals(ss []Stmt) int {
	n := 0
	for _, s := range ss {
		switch x := s.(type) {
		case *Local:
			n += len(x.Names)
		case *Call:
			n += len(x.Names)
		case *NumFor, *GenFor:
			n += 4
		}
	}
	return n
}

// sCaptureBreak: captured locals at the loop-body level and in blocks nested in it, closures over them
// escape through globals, the loop is left by a break placed in the (innermost) nested block at a drawn
// iteration; afterwards registers are reused and the escaped closures are used.
func (g *gen) sCaptureBreak(fc *fctx, iters int) []Stmt {
	g.use("capture_break")
	iv := g.fresh("i")
	sig0 := &fnSig{nparams: 0, rets: []retT{{k: kNum}}, cost: 4}
	mkCounter := func(init Expr) (decl []Stmt, gname string) {
		v, f := g.fresh("cv"), g.fresh("cf")
		gname = g.fresh("GC")
		g.prog.NFuncs++
		fd := &FuncDef{ID: g.prog.NFuncs, Body: []Stmt{
			&Assign{Targets: []Expr{Var{v}}, Exprs: []Expr{Bin{"+", Var{v}, Num{1}}}},
			&Return{Exprs: []Expr{Var{v}}}}}
		decl = []Stmt{&Local{Names: []string{v}, Exprs: []Expr{init}}, &Local{Names: []string{f}, Exprs: []Expr{Func{fd}}},
			&Assign{Targets: []Expr{Var{gname}}, Exprs: []Expr{Var{f}}}}
		g.globals = append(g.globals, &varInfo{name: gname, k: kFn, sig: sig0, global: true})
		return
	}
	var globals []string
	d0, g0 := mkCounter(Bin{"*", Var{iv}, Num{10}})
	globals = append(globals, g0)
	body := d0
	// nested levels
	depth := 1 + g.ch(2)
	breakAt := 1 + g.ch(iters)
	inner := []Stmt{}
	for lvl := depth; lvl >= 1; lvl-- {
		dl, gl := mkCounter(Bin{"+", Var{iv}, Num{float64(100 * lvl)}})
		globals = append(globals, gl)
		blk := dl
		if g.ch(3) == 0 {
			blk = append(blk, g.sEmit(fc)...)
		}
		if lvl == depth {
			// the break sits in the innermost nested block (sometimes in the outer one)
			blk = append(blk, &If{Conds: []Expr{Bin{"==", Var{iv}, Num{float64(breakAt)}}}, Blocks: [][]Stmt{{&Break{}}}})
		}
		blk = append(blk, inner...)
		if g.ch(2) == 0 {
			inner = []Stmt{&Do{Body: blk}}
		} else {
			inner = []Stmt{&If{Conds: []Expr{Bin{"<", Var{iv}, Num{1000}}}, Blocks: [][]Stmt{blk}}}
		}
	}
	body = append(body, inner...)
	body = append(body, g.sEmit(fc)...)
	var loop Stmt
	if g.ch(2) == 0 {
		loop = &NumFor{Var: iv, From: Num{1}, To: Num{float64(iters)}, Body: body}
	} else {
		// while with the counter as a plain local
		body = append(body, &Assign{Targets: []Expr{Var{iv}}, Exprs: []Expr{Bin{"+", Var{iv}, Num{1}}}})
		return append([]Stmt{&Local{Names: []string{iv}, Exprs: []Expr{Num{1}}}, &While{Cond: Bin{"<=", Var{iv}, Num{float64(iters)}}, Body: body}}, g.useCounters(fc, globals)...)
	}
	return append([]Stmt{loop}, g.useCounters(fc, globals)...)
}

func (g *gen) useCounters(fc *fctx, globals []string) []Stmt {
	out := g.sClobberN(30)
	var names []string
	for _, gn := range globals {
		r := g.fresh("cr")
		names = append(names, r)
		out = append(out, &Call{Names: []string{r}, Fn: Var{gn}})
	}
	// locals declared after the loop reuse its registers
	pad := g.fresh("pad")
	out = append(out, &Local{Names: []string{pad, pad + "b", pad + "c"}, Exprs: []Expr{Num{901}, Num{902}, Num{903}}})
	for _, gn := range globals {
		r := g.fresh("cr")
		names = append(names, r)
		out = append(out, &Call{Names: []string{r}, Fn: Var{gn}})
	}
	if len(names) > 8 {
		names = names[:8]
	}
	out = append(out, g.emitVars("cbk", names...))
	return out
}

func (g *gen) sClobberN(n int) []Stmt {
	var args []Expr
	for i := 0; i < n; i++ {
		args = append(args, Num{float64(700 + i)})
	}
	return []Stmt{&Call{Fn: Var{"clobber"}, Args: args}}
}

// wrapPcall keeps statements whose calls may hit a nil (a pass that did not happen) from ending the program:
// they are used as they are; the GT entries exist for the passes that ran (iters >= 2).
func wrapPcall(g *gen, ss []Stmt) []Stmt { return ss }
