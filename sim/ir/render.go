package ir

import (
	"fmt"
	"math"
	"strconv"
	"strings"
)

// Layout holds the lexical knobs of a rendering.
type Layout struct {
	Indent     string
	EOL        string
	Blank      int // 0..3: out of 8 statements followed by a blank line
	Comment    int // 0..3: out of 8 statements preceded by a comment
	Semi       int // 0..3: out of 8 statements terminated by ';'
	Parens     int // 0..3: out of 8 atoms wrapped in redundant parentheses
	PadLocals  int // dummy locals declared first (moves registers)
	LocalFnAlt bool
	Seed       uint64
	// Header: the text starts with a comment line of its own (HeaderLine). A loader that reads the program from a
	// file may put a '#' line in its place: the line count, and with it every source position, stays the same.
	Header bool
}

// HeaderLine is the first line of a program rendered with Layout.Header.
const HeaderLine = "-- header"

// Chooser is the subset of the choice tape the renderer/generator needs.
type Chooser interface {
	Choose(n int) int
}

// DrawLayout draws a layout from the tape. Only LF and CRLF line ends are used
// (a lone CR is exercised by the streamload engine's token-level re-rendering).
func DrawLayout(t Chooser) *Layout {
	l := &Layout{EOL: "\n"}
	l.Indent = []string{"  ", "", " ", "\t", "      "}[t.Choose(5)]
	if t.Choose(4) == 3 {
		l.EOL = "\r\n"
	}
	l.Blank = t.Choose(4)
	l.Comment = t.Choose(4)
	l.Semi = t.Choose(4)
	l.Parens = t.Choose(4)
	l.PadLocals = []int{0, 0, 1, 3, 7, 20}[t.Choose(6)]
	l.LocalFnAlt = t.Choose(2) == 1
	l.Seed = uint64(t.Choose(1 << 30))
	l.Header = t.Choose(4) == 0
	return l
}

// PlainLayout is the canonical layout.
func PlainLayout() *Layout { return &Layout{Indent: "  ", EOL: "\n"} }

// Rendered is the result of rendering a program.
type Rendered struct {
	Source string
	Lines  int
}

type renderer struct {
	sb    strings.Builder
	line  int
	lay   *Layout
	rs    uint64
	depth int
}

func (r *renderer) rnd(n int) int {
	r.rs += 0x9e3779b97f4a7c15
	z := r.rs
	z = (z ^ (z >> 30)) * 0xbf58476d1ce4e5b9
	z = (z ^ (z >> 27)) * 0x94d049bb133111eb
	z ^= z >> 31
	return int(z % uint64(n))
}

func (r *renderer) nl() {
	r.sb.WriteString(r.lay.EOL)
	r.line++
}

func (r *renderer) ind() {
	for i := 0; i < r.depth; i++ {
		r.sb.WriteString(r.lay.Indent)
	}
}

var comments = []string{"-- c", "--[[ block ]]", "--[==[ ]] ]==]", "--[[ two\nlines ]]", "--", "-- ]] [[ \" '", "--[=[ x\n\ny ]=]", "--[=", "--[==", "--[", "--[=x"}

// pre emits optional comment/blank lines before a statement.
func (r *renderer) pre() {
	if r.lay.Comment > 0 && r.rnd(8) < r.lay.Comment {
		c := comments[r.rnd(len(comments))]
		r.ind()
		for _, ch := range c {
			if ch == '\n' {
				r.nl()
			} else {
				r.sb.WriteRune(ch)
			}
		}
		r.nl()
	}
	if r.lay.Blank > 0 && r.rnd(8) < r.lay.Blank {
		r.nl()
	}
}

// line emits one source line (indent + text + optional ';' + EOL) and returns its number.
func (r *renderer) stmtLine(text string, semiOK bool) int {
	r.ind()
	r.sb.WriteString(text)
	if semiOK && r.lay.Semi > 0 && r.rnd(8) < r.lay.Semi {
		r.sb.WriteString(";")
	}
	ln := r.line
	r.nl()
	return ln
}

func fmtNum(v float64) string {
	if v == math.Trunc(v) && math.Abs(v) < 1e15 {
		s := strconv.FormatFloat(v, 'f', 0, 64)
		if v < 0 {
			return "(" + s + ")"
		}
		return s
	}
	s := strconv.FormatFloat(v, 'g', -1, 64)
	if v < 0 {
		return "(" + s + ")"
	}
	return s
}

func fmtStr(s string) string {
	var sb strings.Builder
	sb.WriteByte('"')
	for i := 0; i < len(s); i++ {
		c := s[i]
		switch {
		case c == '"' || c == '\\':
			sb.WriteByte('\\')
			sb.WriteByte(c)
		case c == '\n':
			sb.WriteString("\\n")
		case c < 32 || c >= 127:
			fmt.Fprintf(&sb, "\\%03d", c)
		default:
			sb.WriteByte(c)
		}
	}
	sb.WriteByte('"')
	return sb.String()
}

func isAtom(e Expr) bool {
	switch e.(type) {
	case Nil, True, False, Num, Str, Var, Vararg:
		return true
	}
	return false
}

func (r *renderer) expr(e Expr) string {
	s := r.expr0(e)
	if _, isVa := e.(Vararg); !isVa && r.lay.Parens > 0 && isAtom(e) && r.rnd(8) < r.lay.Parens {
		return "(" + s + ")"
	}
	return s
}

func (r *renderer) operand(e Expr) string {
	if isAtom(e) {
		return r.expr(e)
	}
	switch e.(type) {
	case Index:
		return r.expr0(e)
	}
	return "(" + r.expr0(e) + ")"
}

func (r *renderer) expr0(e Expr) string {
	switch x := e.(type) {
	case Nil:
		return "nil"
	case True:
		return "true"
	case False:
		return "false"
	case Num:
		return fmtNum(x.V)
	case Str:
		return fmtStr(x.V)
	case Var:
		return x.Name
	case Vararg:
		return "..."
	case Index:
		var obj string
		switch x.Obj.(type) {
		case Var, Index:
			obj = r.expr0(x.Obj)
		default:
			obj = "(" + r.expr0(x.Obj) + ")"
		}
		if k, ok := x.Key.(Str); ok && isIdent(k.V) {
			return obj + "." + k.V
		}
		return obj + "[" + r.expr(x.Key) + "]"
	case Bin:
		return r.operand(x.L) + " " + x.Op + " " + r.operand(x.R)
	case Un:
		op := x.Op
		if op == "not" {
			op = "not "
		}
		return op + r.operand(x.X)
	case TableCons:
		var parts []string
		for _, a := range x.Arr {
			parts = append(parts, r.expr(a))
		}
		for i, k := range x.Keys {
			if isIdent(k) && r.rnd(3) != 0 {
				parts = append(parts, k+" = "+r.expr(x.Vals[i]))
			} else {
				parts = append(parts, "["+fmtStr(k)+"] = "+r.expr(x.Vals[i]))
			}
		}
		sep := ", "
		if r.rnd(4) == 0 {
			sep = "; "
		}
		return "{" + strings.Join(parts, sep) + "}"
	case Func:
		panic("ir: function literal outside a Local statement")
	}
	panic(fmt.Sprintf("ir: unknown expr %T", e))
}

var keywords = map[string]bool{"and": true, "break": true, "do": true, "else": true, "elseif": true, "end": true, "false": true, "for": true, "function": true,
	"goto": true, "if": true, "in": true, "local": true, "nil": true, "not": true, "or": true, "repeat": true, "return": true, "then": true, "true": true, "until": true, "while": true}

func isIdent(s string) bool {
	if s == "" || keywords[s] {
		return false
	}
	for i := 0; i < len(s); i++ {
		c := s[i]
		if !(c == '_' || (c >= 'a' && c <= 'z') || (c >= 'A' && c <= 'Z') || (i > 0 && c >= '0' && c <= '9')) {
			return false
		}
	}
	return true
}

func (r *renderer) exprs(es []Expr) string {
	parts := make([]string, len(es))
	for i, e := range es {
		parts[i] = r.expr(e)
	}
	return strings.Join(parts, ", ")
}

func (r *renderer) callText(fn Expr, method string, args []Expr) string {
	var f string
	switch fn.(type) {
	case Var, Index:
		f = r.expr0(fn)
	default:
		f = "(" + r.expr0(fn) + ")"
	}
	if method != "" {
		f += ":" + method
	}
	return f + "(" + r.exprs(args) + ")"
}

func (r *renderer) block(body []Stmt) {
	r.depth++
	for _, s := range body {
		r.stmt(s)
	}
	r.depth--
}

func (r *renderer) funcBody(f *FuncDef, head string) {
	params := append([]string(nil), f.Params...)
	if f.IsVararg {
		params = append(params, "...")
	}
	f.Line = r.stmtLine(head+"("+strings.Join(params, ", ")+")", false)
	r.block(f.Body)
	f.EndLine = r.stmtLine("end", true)
}

func (r *renderer) stmt(s Stmt) {
	r.pre()
	p := s.pos()
	switch x := s.(type) {
	case *FuncStmt:
		p.Line = r.line
		r.funcBody(x.F, "function "+x.Name)
		p.EndLine = x.F.EndLine
	case *Local:
		if fe, ok := x.Exprs0().(Func); ok && len(x.Exprs) > 1 {
			// local a, b = function(...)  <body>  end, e2
			p.Line = r.line
			params := append([]string(nil), fe.F.Params...)
			if fe.F.IsVararg {
				params = append(params, "...")
			}
			fe.F.Line = r.stmtLine("local "+strings.Join(x.Names, ", ")+" = function("+strings.Join(params, ", ")+")", false)
			r.block(fe.F.Body)
			fe.F.EndLine = r.stmtLine("end, "+r.exprs(x.Exprs[1:]), true)
			p.EndLine = fe.F.EndLine
			return
		}
		if len(x.Exprs) == 1 {
			if fe, ok := x.Exprs[0].(Func); ok {
				if len(x.Names) != 1 {
					panic("ir: function literal needs exactly one name")
				}
				p.Line = r.line
				if x.Rec {
					r.funcBody(fe.F, "local function "+x.Names[0])
				} else {
					r.funcBody(fe.F, "local "+x.Names[0]+" = function")
				}
				p.EndLine = fe.F.EndLine
				return
			}
		}
		txt := "local " + strings.Join(x.Names, ", ")
		if len(x.Exprs) > 0 {
			txt += " = " + r.exprs(x.Exprs)
		}
		p.Line = r.stmtLine(txt, true)
	case *Assign:
		ts := make([]string, len(x.Targets))
		for i, t := range x.Targets {
			ts[i] = r.expr0(t)
		}
		p.Line = r.stmtLine(strings.Join(ts, ", ")+" = "+r.exprs(x.Exprs), true)
	case *Call:
		c := r.callText(x.Fn, x.Method, x.Args)
		switch {
		case len(x.Names) > 0:
			c = "local " + strings.Join(x.Names, ", ") + " = " + c
		case len(x.Targets) > 0:
			ts := make([]string, len(x.Targets))
			for i, t := range x.Targets {
				ts[i] = r.expr0(t)
			}
			c = strings.Join(ts, ", ") + " = " + c
		}
		p.Line = r.stmtLine(c, true)
	case *If:
		x.CondLines = x.CondLines[:0]
		for i, c := range x.Conds {
			kw := "if "
			if i > 0 {
				kw = "elseif "
			}
			ln := r.stmtLine(kw+r.expr(c)+" then", false)
			x.CondLines = append(x.CondLines, ln)
			if i == 0 {
				p.Line = ln
			}
			r.block(x.Blocks[i])
		}
		if x.HasElse {
			r.stmtLine("else", false)
			r.block(x.Else)
		}
		p.EndLine = r.stmtLine("end", true)
	case *While:
		p.Line = r.stmtLine("while "+r.expr(x.Cond)+" do", false)
		r.block(x.Body)
		p.EndLine = r.stmtLine("end", true)
	case *Repeat:
		p.Line = r.stmtLine("repeat", false)
		r.block(x.Body)
		p.EndLine = r.stmtLine("until "+r.expr(x.Cond), true)
	case *NumFor:
		h := "for " + x.Var + " = " + r.expr(x.From) + ", " + r.expr(x.To)
		if x.Step != nil {
			h += ", " + r.expr(x.Step)
		}
		p.Line = r.stmtLine(h+" do", false)
		r.block(x.Body)
		p.EndLine = r.stmtLine("end", true)
	case *GenFor:
		h := "for " + strings.Join(x.Names, ", ") + " in "
		if x.Fn != nil {
			h += r.callText(x.Fn, "", x.Args)
		} else {
			h += r.exprs(x.Exprs)
		}
		p.Line = r.stmtLine(h+" do", false)
		r.block(x.Body)
		p.EndLine = r.stmtLine("end", true)
	case *Do:
		p.Line = r.stmtLine("do", false)
		r.block(x.Body)
		p.EndLine = r.stmtLine("end", true)
	case *Break:
		// `break` must be the last statement of its block in Lua 5.1 grammar;
		// wrap it so that it can stand anywhere.
		p.Line = r.stmtLine("do break end", true)
	case *Goto:
		p.Line = r.stmtLine("goto "+x.Label, true)
	case *Label:
		p.Line = r.stmtLine("::"+x.Name+"::", true)
	case *Return:
		txt := "return"
		if len(x.Exprs) > 0 {
			txt += " " + r.exprs(x.Exprs)
		}
		p.Line = r.stmtLine("do "+txt+" end", true)
	case *ReturnCall:
		p.Line = r.stmtLine("do return "+r.callText(x.Fn, "", x.Args)+" end", true)
	default:
		panic(fmt.Sprintf("ir: unknown stmt %T", s))
	}
}

// ChunkName is the chunk name every harness passes to Load.
const ChunkName = "<sim>"

// Render renders a program. It fills the Line fields of the IR in place, so a
// program must not be rendered concurrently.
func Render(p *Program, lay *Layout) *Rendered {
	r := &renderer{lay: lay, line: 1, rs: lay.Seed}
	// line 1: bind host functions and builtins to locals
	var ls, rs []string
	for _, h := range PreludeHost {
		ls = append(ls, h)
		rs = append(rs, h)
	}
	for _, b := range PreludeBuiltin {
		ls = append(ls, b.Local)
		rs = append(rs, b.Global)
	}
	if lay.Header {
		r.sb.WriteString(HeaderLine)
		r.nl()
	}
	r.sb.WriteString("local " + strings.Join(ls, ", ") + " = " + strings.Join(rs, ", "))
	r.nl()
	if lay.PadLocals > 0 {
		var names, zeros []string
		for i := 0; i < lay.PadLocals; i++ {
			names = append(names, fmt.Sprintf("_p%d", i))
			zeros = append(zeros, "0")
		}
		r.sb.WriteString("local " + strings.Join(names, ", ") + " = " + strings.Join(zeros, ", "))
		r.nl()
	}
	r.depth = 0
	for _, s := range p.Body {
		r.stmt(s)
	}
	return &Rendered{Source: r.sb.String(), Lines: r.line}
}
