// Package ir defines SimLua, the small typed intermediate representation in
// which workload programs are generated, the renderer that turns it into Lua
// 5.1 source under layout knobs, and the generator that draws programs from the
// choice tape. The executable reference model (package model) interprets the
// same IR directly and shares no code with gopher-lua.
package ir

// Expr is a pure SimLua expression (no calls, except metamethod re-entry).
type Expr interface{ isExpr() }

type (
	Nil   struct{}
	True  struct{}
	False struct{}
	Num   struct{ V float64 }
	Str   struct{ V string }
	// Var names a local, an upvalue or (when no local of that name is in
	// scope) a global resolved through the function's environment.
	Var   struct{ Name string }
	Index struct{ Obj, Key Expr }
	Bin   struct {
		Op   string // + - * .. == ~= < <= > >= and or
		L, R Expr
	}
	Un struct {
		Op string // not # -
		X  Expr
	}
	TableCons struct {
		Arr  []Expr
		Keys []string
		Vals []Expr
	}
	// Func is a function literal. It appears only as the sole or the first right-hand side
	// of a Local statement (the names declared by that statement are not in scope inside it, unless Rec).
	Func struct{ F *FuncDef }
	// Vararg is `...` (only in hand-written templates).
	Vararg struct{}
)

func (Nil) isExpr()       {}
func (True) isExpr()      {}
func (False) isExpr()     {}
func (Num) isExpr()       {}
func (Str) isExpr()       {}
func (Var) isExpr()       {}
func (Index) isExpr()     {}
func (Bin) isExpr()       {}
func (Un) isExpr()        {}
func (TableCons) isExpr() {}
func (Func) isExpr()      {}
func (Vararg) isExpr()    {}

// FuncDef is a function body.
type FuncDef struct {
	ID       int
	Params   []string
	IsVararg bool
	Body     []Stmt
	Line     int // line of the `function` keyword (filled by the renderer)
	EndLine  int
}

// Stmt is a SimLua statement. Line is filled in by the renderer: every simple
// statement and every block header occupies exactly one line.
type Stmt interface{ pos() *Pos }

type Pos struct {
	Line    int
	EndLine int // for block statements: line of the closing keyword / until
}

func (p *Pos) pos() *Pos { return p }

// Exprs0 is the first right-hand side of a Local statement, or nil.
func (l *Local) Exprs0() Expr {
	if len(l.Exprs) == 0 {
		return nil
	}
	return l.Exprs[0]
}

type (
	// Local declares locals with pure right-hand sides. Rec renders a single
	// function literal as `local function name` (the name is in scope inside).
	Local struct {
		Pos
		Names []string
		Exprs []Expr
		Rec   bool
	}
	// Assign is a single or multiple assignment with pure right-hand sides.
	Assign struct {
		Pos
		Targets []Expr // Var or Index
		Exprs   []Expr
	}
	// Call is a call statement, or a call as the sole right-hand side of a
	// local declaration (Names) or an assignment (Targets).
	Call struct {
		Pos
		Names   []string
		Targets []Expr
		Fn      Expr
		Method  string // non-empty: Fn:Method(Args)
		Args    []Expr
	}
	If struct {
		Pos
		Conds     []Expr
		Blocks    [][]Stmt
		Else      []Stmt
		HasElse   bool
		CondLines []int // line of each if/elseif header
	}
	While struct {
		Pos
		Cond Expr
		Body []Stmt
	}
	Repeat struct {
		Pos
		Body []Stmt
		Cond Expr
	}
	NumFor struct {
		Pos
		Var            string
		From, To, Step Expr // Step may be nil
		Body           []Stmt
	}
	// GenFor is `for Names in <explist> do`. The explist is either a call
	// Fn(Args) or the explicit expressions Exprs.
	GenFor struct {
		Pos
		Names []string
		Fn    Expr
		Args  []Expr
		Exprs []Expr
		Body  []Stmt
	}
	Do struct {
		Pos
		Body []Stmt
	}
	Break struct{ Pos }
	Goto  struct {
		Pos
		Label string
	}
	Label struct {
		Pos
		Name string
	}
	Return struct {
		Pos
		Exprs []Expr
	}
	// FuncStmt is `function Name(...) ... end`: the closure is assigned to the variable Name, which is a local, a
	// variable of an enclosing function or a global, resolved like any other name.
	FuncStmt struct {
		Pos
		Name string
		F    *FuncDef
	}
	// ReturnCall is a proper tail call `return Fn(Args)`.
	ReturnCall struct {
		Pos
		Fn   Expr
		Args []Expr
	}
)

// Program is one generated workload.
type Program struct {
	Body []Stmt
	// Hosts are the host functions bound to locals in the first line.
	NFuncs int
	// Features used by this program (for probes and known-finding switches).
	Features map[string]int
	// MultiAssign is set when the program contains a multiple assignment to
	// observable targets (the model then explores both store orders).
	MultiAssign bool
	// SwitchPoints: statement count etc. for bookkeeping
	NStmts int
}

// Prelude names: host functions and builtins are bound to chunk-level locals in
// the first line of every rendered program, so that setfenv experiments cannot
// hide them. The model pre-binds the same names in its root scope.
var PreludeHost = []string{"emit", "snap", "clobber", "luadepth", "hostcall", "hostpcall", "hostyield"}
var PreludeBuiltin = []struct{ Local, Global string }{
	{"pcall", "pcall"}, {"xpcall", "xpcall"}, {"error", "error"},
	{"cocreate", "coroutine.create"}, {"coresume", "coroutine.resume"}, {"coyield", "coroutine.yield"},
	{"cowrap", "coroutine.wrap"}, {"costatus", "coroutine.status"}, {"corunning", "coroutine.running"},
	{"setfenv", "setfenv"}, {"getfenv", "getfenv"}, {"setmetatable", "setmetatable"}, {"getmetatable", "getmetatable"},
	{"tsort", "table.sort"}, {"gsub", "string.gsub"}, {"select", "select"}, {"unpack", "unpack"},
	{"tostring", "tostring"}, {"type", "type"}, {"rawequal", "rawequal"}, {"ipairs", "ipairs"},
	{"rawget", "rawget"}, {"rawset", "rawset"}, {"strformat", "string.format"},
	{"dgetup", "debug.getupvalue"}, {"dsetup", "debug.setupvalue"},
}
