package ir

import "fmt"

// funcBody generates a function definition with nparams numeric parameters and the given results.
func (g *gen) funcDef(fc *fctx, nparams int, rets []retT, canYield bool, coID int, inCallback bool, nstmts int, pre func(fc2 *fctx) []Stmt, protected int) (*FuncDef, *fnSig) {
	fd := &FuncDef{}
	g.prog.NFuncs++
	fd.ID = g.prog.NFuncs
	g.ctxSeq++
	fc2 := &fctx{id: g.ctxSeq, level: fc.level + 1, canYield: canYield, coID: coID, rets: rets, isFunc: true, protected: protected, inCallback: inCallback}
	oldEst, oldMult := g.est, g.mult
	g.est, g.mult = 0, 1
	g.push()
	g.nloc = nparams
	for i := 0; i < nparams; i++ {
		p := g.fresh("p")
		fd.Params = append(fd.Params, p)
		g.declare(&varInfo{name: p, k: kNum, fnLevel: fc2.level})
	}
	var body []Stmt
	if pre != nil {
		body = append(body, pre(fc2)...)
	}
	body = append(body, g.stmtsIn(nstmts, fc2)...)
	// early return inside a condition
	if len(rets) >= 0 && g.ch(4) == 0 {
		body = append(body, &If{Conds: []Expr{g.boolNC(1)}, Blocks: [][]Stmt{{g.retStmt(fc2)}}})
	}
	body = append(body, g.finalReturn(fc2)...)
	g.pop()
	cost := g.est + 3
	g.est, g.mult = oldEst, oldMult
	fd.Body = body
	sig := &fnSig{nparams: nparams, rets: rets, yields: fc2.yielded, cost: cost}
	return fd, sig
}

func (g *gen) retExprs(fc *fctx) []Expr {
	var es []Expr
	for _, r := range fc.rets {
		switch r.k {
		case kFn:
			// return a visible function of the right signature declared in this function
			vs := g.visible(func(v *varInfo) bool { return v.k == kFn && v.sig == r.sig })
			if len(vs) > 0 {
				es = append(es, Var{vs[0].name})
			} else {
				es = append(es, Nil{})
			}
		default:
			es = append(es, g.exprOf(r.k, 1))
		}
	}
	return es
}

func (g *gen) retStmt(fc *fctx) Stmt { return &Return{Exprs: g.retExprs(fc)} }

func (g *gen) finalReturn(fc *fctx) []Stmt {
	// proper tail call to a visible function with matching results
	if g.feat("tailcall") && g.ch(5) == 0 && !fc.canYield {
		vs := g.visible(func(v *varInfo) bool {
			return v.k == kFn && !v.sig.yields && !v.sig.wrap && len(v.sig.rets) == len(fc.rets) && sameRets(v.sig.rets, fc.rets) && v.fnLevel < fc.level
		})
		if len(vs) > 0 {
			f := vs[g.ch(len(vs))]
			g.use("tailcall")
			g.cost(f.sig.cost)
			return []Stmt{&ReturnCall{Fn: Var{f.name}, Args: g.numArgs(f.sig.nparams)}}
		}
	}
	if len(fc.rets) == 0 && g.ch(2) == 0 {
		return nil
	}
	return []Stmt{g.retStmt(fc)}
}

func sameRets(a, b []retT) bool {
	for i := range a {
		if a[i].k != b[i].k || a[i].k == kFn {
			return false
		}
	}
	return true
}

func (g *gen) numArgs(n int) []Expr {
	// sometimes one argument more or fewer than declared (adjusted by the call rules)
	m := n
	switch g.ch(8) {
	case 0:
		m = n + 1
	case 1:
		if n > 0 && g.ch(2) == 0 {
			m = n - 1 // the omitted parameter is nil
			g.use("fewer_arguments")
		}
	}
	var out []Expr
	for i := 0; i < m; i++ {
		out = append(out, g.numExpr(1))
	}
	return out
}

// goCallee returns the expression through which a builtin or host function is called: usually its name, sometimes
// an index expression that gives the call site no static function name (t[1](...), t[k](...)).
func (g *gen) goCallee(name string, pre *[]Stmt) Expr {
	if !g.feat("fieldcall") || g.ch(5) != 0 {
		return Var{name}
	}
	g.use("anonymous_go_callee")
	tb := g.fresh("ft")
	if g.ch(2) == 0 {
		*pre = append(*pre, &Local{Names: []string{tb}, Exprs: []Expr{TableCons{Arr: []Expr{Var{name}}}}})
		return Index{Var{tb}, Num{1}}
	}
	k := g.fresh("fk")
	*pre = append(*pre, &Local{Names: []string{tb, k}, Exprs: []Expr{TableCons{}, Str{"k"}}},
		&Assign{Targets: []Expr{Index{Var{tb}, Var{k}}}, Exprs: []Expr{Var{name}}})
	return Index{Var{tb}, Var{k}}
}

// sSelfTail: a function that captures one of its locals in a closure and then tail-calls itself: every activation
// gets a fresh variable, and the closures collected along the way keep theirs.
func (g *gen) sSelfTail(fc *fctx) []Stmt {
	g.use("self_tail_call_with_capture")
	g.cost(60)
	acc, loop, i, n, v, cl := g.fresh("acc"), g.fresh("lp"), g.fresh("i"), g.fresh("n"), g.fresh("v"), g.fresh("cl")
	g.prog.NFuncs++
	clDef := &FuncDef{ID: g.prog.NFuncs, Body: []Stmt{
		&Assign{Targets: []Expr{Var{v}}, Exprs: []Expr{Bin{"+", Var{v}, Num{1}}}}, &Return{Exprs: []Expr{Var{v}}}}}
	g.prog.NFuncs++
	capturesParam := g.ch(2) == 0
	body := []Stmt{&Local{Names: []string{v}, Exprs: []Expr{Bin{"*", Var{i}, Num{10}}}}}
	if capturesParam {
		// the closure captures the parameter itself
		v = i
		clDef.Body = []Stmt{&Assign{Targets: []Expr{Var{v}}, Exprs: []Expr{Bin{"+", Var{v}, Num{100}}}}, &Return{Exprs: []Expr{Var{v}}}}
		body = nil
	}
	body = append(body,
		&Local{Names: []string{cl}, Exprs: []Expr{Func{clDef}}},
		&Assign{Targets: []Expr{Index{Var{acc}, Bin{"+", Un{"#", Var{acc}}, Num{1}}}}, Exprs: []Expr{Var{cl}}},
		&If{Conds: []Expr{Bin{">=", Var{i}, Var{n}}}, Blocks: [][]Stmt{{&Return{Exprs: []Expr{Str{"done"}}}}}},
		&ReturnCall{Fn: Var{loop}, Args: []Expr{Bin{"+", Var{i}, Num{1}}, Var{n}}})
	loopDef := &FuncDef{ID: g.prog.NFuncs, Params: []string{i, n}, Body: body}
	cnt := 2 + g.ch(3)
	r := g.fresh("r")
	out := []Stmt{
		&Local{Names: []string{acc}, Exprs: []Expr{TableCons{}}},
		&Local{Names: []string{loop}, Exprs: []Expr{Func{loopDef}}, Rec: true},
		&Call{Names: []string{r}, Fn: Var{loop}, Args: []Expr{Num{1}, Num{float64(cnt)}}},
	}
	args := []Expr{Str{"st"}, Var{r}}
	for k := 1; k <= cnt; k++ {
		x := g.fresh("x")
		out = append(out, &Call{Names: []string{x}, Fn: Index{Var{acc}, Num{float64(k)}}})
		args = append(args, Var{x})
	}
	x := g.fresh("x")
	out = append(out, &Call{Names: []string{x}, Fn: Index{Var{acc}, Num{1}}})
	args = append(args, Var{x})
	out = append(out, &Call{Fn: Var{"emit"}, Args: args})
	return []Stmt{&Do{Body: out}}
}

// sHighRegister: the only captured locals of a function live in high registers (behind 58-180 other locals); the
// function leaves by a plain return, and its closures are used after other calls have reused the registers.
func (g *gen) sHighRegister(fc *fctx) []Stmt {
	g.use("capture_in_high_register")
	g.cost(40)
	pad := []int{58, 62, 63, 64, 70, 120, 180}[g.ch(7)]
	var pads []string
	for i := 0; i < pad; i++ {
		pads = append(pads, g.fresh("hp"))
	}
	mk, v, w, f, f1, f2, a, b, c := g.fresh("mk"), g.fresh("hv"), g.fresh("hw"), g.fresh("hf"), g.fresh("f"), g.fresh("f"), g.fresh("ra"), g.fresh("rb"), g.fresh("rc")
	g.prog.NFuncs++
	clDef := &FuncDef{ID: g.prog.NFuncs, Body: []Stmt{
		&Assign{Targets: []Expr{Var{v}}, Exprs: []Expr{Bin{"+", Var{v}, Var{w}}}}, &Return{Exprs: []Expr{Var{v}}}}}
	g.prog.NFuncs++
	mkDef := &FuncDef{ID: g.prog.NFuncs, Params: []string{"hx"}, Body: []Stmt{
		&Local{Names: pads, Exprs: []Expr{Num{0}}},
		&Local{Names: []string{v, w}, Exprs: []Expr{Var{"hx"}, Num{float64(1 + g.ch(3))}}},
		&Local{Names: []string{f}, Exprs: []Expr{Func{clDef}}},
		&Return{Exprs: []Expr{Var{f}}}}}
	out := []Stmt{
		&Local{Names: []string{mk}, Exprs: []Expr{Func{mkDef}}},
		&Call{Names: []string{f1}, Fn: Var{mk}, Args: []Expr{Num{40}}},
		&Call{Names: []string{f2}, Fn: Var{mk}, Args: []Expr{Num{500}}},
	}
	if g.feat("clobber") {
		out = append(out, g.sClobber(fc)...)
	}
	out = append(out,
		&Call{Names: []string{a}, Fn: Var{f1}}, &Call{Names: []string{b}, Fn: Var{f1}}, &Call{Names: []string{c}, Fn: Var{f2}},
		&Call{Fn: Var{"emit"}, Args: []Expr{Str{"hr"}, Var{a}, Var{b}, Var{c}}})
	return []Stmt{&Do{Body: out}}
}

func (g *gen) sFunc(fc *fctx) []Stmt {
	if g.feat("tailcall") && g.feat("closure") && g.ch(10) == 0 {
		return g.sSelfTail(fc)
	}
	if g.feat("closure") && g.ch(12) == 0 {
		return g.sHighRegister(fc)
	}
	if g.feat("closure") && g.feat("shadow") && g.ch(12) == 0 {
		return g.sShadowedUpvalueCapture(fc)
	}
	if g.feat("closure") && g.ch(10) == 0 {
		return g.sNameForms(fc)
	}
	g.use("closure")
	if g.feat("factory") && g.ch(3) == 0 && fc.level < 2 {
		return g.sFactory(fc)
	}
	nret := g.ch(3)
	var rets []retT
	for i := 0; i < nret; i++ {
		rets = append(rets, retT{k: []vkind{kNum, kNum, kStr}[g.ch(3)]})
	}
	name := g.fresh("f")
	rec := g.ch(3) == 0
	var v *varInfo
	if rec {
		// declared before the body so that the renderer's `local function` form is faithful;
		// the body never calls itself (no unbounded recursion), it only may mention the name
		v = g.declare(&varInfo{name: name, k: kAny, fnLevel: fc.level})
	}
	fd, sig := g.funcDef(fc, g.ch(3), rets, false, fc.coID, false, 1+g.ch(4), nil, 0)
	if v == nil {
		v = g.declare(&varInfo{name: name, fnLevel: fc.level})
	}
	v.k, v.sig = kFn, sig
	out := []Stmt{&Local{Names: []string{name}, Exprs: []Expr{Func{fd}}, Rec: rec}}
	if g.ch(4) == 0 {
		// escape through a global
		gn := g.fresh("GF")
		g.globals = append(g.globals, &varInfo{name: gn, k: kFn, sig: sig, global: true})
		out = append(out, &Assign{Targets: []Expr{Var{gn}}, Exprs: []Expr{Var{name}}})
		g.use("escape_global")
	}
	return out
}

// sFactory: a function that creates a fresh variable per call and returns one
// or two closures sharing it (counter / getter+setter).
func (g *gen) sFactory(fc *fctx) []Stmt {
	g.use("factory")
	mk := g.fresh("mk")
	cv := g.fresh("c")
	two := g.ch(2) == 0
	incSig := &fnSig{nparams: 1, rets: []retT{{k: kNum}}, cost: 4}
	getSig := &fnSig{nparams: 0, rets: []retT{{k: kNum}}, cost: 3}
	rets := []retT{{k: kFn, sig: incSig}}
	if two {
		rets = append(rets, retT{k: kFn, sig: getSig})
	}
	pre := func(fc2 *fctx) []Stmt {
		p0 := Expr(Num{1})
		vs := g.visible(func(v *varInfo) bool { return v.k == kNum && v.fnLevel == fc2.level })
		if len(vs) > 0 {
			p0 = Var{vs[0].name}
		}
		g.declare(&varInfo{name: cv, k: kNum, fnLevel: fc2.level})
		out := []Stmt{&Local{Names: []string{cv}, Exprs: []Expr{p0}}}
		inc := g.fresh("inc")
		dp := g.fresh("d")
		g.prog.NFuncs++
		incDef := &FuncDef{ID: g.prog.NFuncs, Params: []string{dp}, Body: []Stmt{
			&Assign{Targets: []Expr{Var{cv}}, Exprs: []Expr{Bin{"+", Var{cv}, Var{dp}}}},
			&Return{Exprs: []Expr{Var{cv}}}}}
		g.declare(&varInfo{name: inc, k: kFn, sig: incSig, fnLevel: fc2.level})
		out = append(out, &Local{Names: []string{inc}, Exprs: []Expr{Func{incDef}}})
		if two {
			get := g.fresh("get")
			g.prog.NFuncs++
			getDef := &FuncDef{ID: g.prog.NFuncs, Body: []Stmt{&Return{Exprs: []Expr{Var{cv}}}}}
			g.declare(&varInfo{name: get, k: kFn, sig: getSig, fnLevel: fc2.level})
			out = append(out, &Local{Names: []string{get}, Exprs: []Expr{Func{getDef}}})
		}
		return out
	}
	fd, sig := g.funcDef(fc, 1, rets, false, fc.coID, false, g.ch(2), pre, 0)
	// make sure the final statement returns the closures (funcDef's finalReturn does via retExprs)
	last := fd.Body[len(fd.Body)-1]
	if _, ok := last.(*Return); !ok {
		fd.Body = append(fd.Body, &Return{Exprs: []Expr{Nil{}}})
	}
	g.declare(&varInfo{name: mk, k: kFn, sig: sig, fnLevel: fc.level})
	out := []Stmt{&Local{Names: []string{mk}, Exprs: []Expr{Func{fd}}}}
	// instantiate twice: each call gets a fresh variable
	for i := 0; i < 1+g.ch(2); i++ {
		a := g.fresh("h")
		names := []string{a}
		g.declare(&varInfo{name: a, k: kFn, sig: incSig, fnLevel: fc.level})
		if two {
			b := g.fresh("h")
			names = append(names, b)
			g.declare(&varInfo{name: b, k: kFn, sig: getSig, fnLevel: fc.level})
		}
		g.cost(sig.cost)
		out = append(out, &Call{Names: names, Fn: Var{mk}, Args: []Expr{g.numExpr(0)}})
	}
	return out
}

func (g *gen) callable(fc *fctx) *varInfo {
	vs := g.visible(func(v *varInfo) bool {
		if v.k != kFn || v.sig == nil || v.sig.wrap {
			return false
		}
		if v.sig.yields && (!fc.canYield || fc.inCallback) {
			return false
		}
		return true
	})
	if len(vs) == 0 {
		return nil
	}
	if len(vs) > 3 && g.ch(2) == 0 {
		return vs[g.ch(3)]
	}
	return vs[g.ch(len(vs))]
}

// bindResults declares locals for the results of a call with signature sig.
func (g *gen) bindResults(fc *fctx, sig *fnSig) []string {
	var names []string
	for _, r := range sig.rets {
		switch r.k {
		case kFn:
			n := g.fresh("h")
			g.declare(&varInfo{name: n, k: kFn, sig: r.sig, fnLevel: fc.level})
			names = append(names, n)
		default:
			v := g.newLocal("r", r.k, fc)
			for _, x := range names {
				if x == v.name {
					v.name = g.fresh("r")
				}
			}
			g.declare(v)
			names = append(names, v.name)
		}
	}
	return names
}

func (g *gen) sCall(fc *fctx) []Stmt {
	f := g.callable(fc)
	if f == nil || g.tight() && f.sig.cost > 10 {
		return g.sEmit(fc)
	}
	g.cost(f.sig.cost)
	if f.sig.yields {
		fc.yielded = true
	}
	args := g.numArgs(f.sig.nparams)
	hasFn := false
	for _, r := range f.sig.rets {
		if r.k == kFn {
			hasFn = true
		}
	}
	if g.feat("fieldcall") && !hasFn && g.ch(4) == 0 {
		// call through a table field (incl. keys that are not identifiers, and the empty string)
		g.use("fieldcall")
		tb := g.fresh("fh")
		var key Expr = Str{[]string{"f", "", "a b", "m.n", "end", "x1"}[g.ch(6)]}
		var pre []Stmt
		switch g.ch(4) {
		case 0:
			// a call site without a static function name: a numeric or a computed key
			g.use("anonymous_lua_callee")
			key = Num{float64(1 + g.ch(3))}
		case 1:
			g.use("anonymous_lua_callee")
			kn := g.fresh("fk")
			pre = []Stmt{&Local{Names: []string{kn}, Exprs: []Expr{Str{"k"}}}}
			key = Var{kn}
		}
		names := g.bindResults(fc, f.sig)
		return append(pre,
			&Local{Names: []string{tb}, Exprs: []Expr{TableCons{}}},
			&Assign{Targets: []Expr{Index{Var{tb}, key}}, Exprs: []Expr{Var{f.name}}},
			&Call{Names: names, Fn: Index{Var{tb}, key}, Args: args},
		)
	}
	switch {
	case len(f.sig.rets) == 0 || (!hasFn && g.ch(4) == 0):
		return []Stmt{&Call{Fn: Var{f.name}, Args: args}}
	case !hasFn && g.ch(3) == 0 && len(f.sig.rets) == 1 && f.sig.rets[0].k == kNum:
		if v := g.assignable(f.sig.rets[0].k); v != nil {
			return []Stmt{&Call{Targets: []Expr{Var{v.name}}, Fn: Var{f.name}, Args: args}}
		}
	}
	names := g.bindResults(fc, f.sig)
	out := []Stmt{&Call{Names: names, Fn: Var{f.name}, Args: args}}
	if !hasFn && g.ch(2) == 0 {
		out = append(out, g.emitVars(names[0], names...))
	}
	return out
}

// protectedBody generates `local bodyN = function() ... end` whose body may raise.
func (g *gen) protectedBody(fc *fctx, noParams bool) (string, *fnSig, []Stmt) {
	name := g.fresh("body")
	nret := g.ch(3)
	var rets []retT
	for i := 0; i < nret; i++ {
		rets = append(rets, retT{k: kNum})
	}
	np := g.ch(2)
	if noParams {
		np = 0
	}
	fd, sig := g.funcDef(fc, np, rets, false, fc.coID, false, 2+g.ch(4), nil, fc.protected+1)
	g.declare(&varInfo{name: name, k: kFn, sig: sig, fnLevel: fc.level})
	return name, sig, []Stmt{&Local{Names: []string{name}, Exprs: []Expr{Func{fd}}}}
}

// sXpcallEscape: the protected body creates a closure over one of its locals, lets it escape, then fails with an
// error value of a drawn type; the handler returns, concatenates (fails for non-strings) or always raises; the
// escaped closure is used after registers were reused.
func (g *gen) sXpcallEscape(fc *fctx) []Stmt {
	g.use("xpcall_escape")
	v, f, gn, body, h, e := g.fresh("ev"), g.fresh("ef"), g.fresh("GE"), g.fresh("body"), g.fresh("hd"), g.fresh("e")
	sig0 := &fnSig{nparams: 0, rets: []retT{{k: kNum}}, cost: 4}
	g.prog.NFuncs++
	fdef := &FuncDef{ID: g.prog.NFuncs, Body: []Stmt{
		&Assign{Targets: []Expr{Var{v}}, Exprs: []Expr{Bin{"+", Var{v}, Num{1}}}},
		&Return{Exprs: []Expr{Var{v}}}}}
	var raise Stmt
	switch g.ch(5) {
	case 0:
		raise = &Call{Fn: Var{"error"}, Args: []Expr{TableCons{Keys: []string{"code"}, Vals: []Expr{Num{3}}}}}
	case 1:
		raise = &Call{Fn: Var{"error"}, Args: []Expr{Nil{}}}
	case 2:
		raise = &Call{Fn: Var{"error"}, Args: []Expr{True{}}}
	case 3:
		raise = &Call{Fn: Var{"error"}, Args: []Expr{Str{"E2"}}}
	default:
		raise = &Call{Fn: Var{"error"}, Args: []Expr{Num{41}}}
	}
	g.prog.NFuncs++
	bdef := &FuncDef{ID: g.prog.NFuncs, Body: []Stmt{
		&Local{Names: []string{v}, Exprs: []Expr{Num{float64(10 + g.ch(20))}}},
		&Local{Names: []string{f}, Exprs: []Expr{Func{fdef}}},
		&Assign{Targets: []Expr{Var{gn}}, Exprs: []Expr{Var{f}}},
		&Call{Fn: Var{gn}},
		raise,
	}}
	var hbody []Stmt
	switch g.ch(3) {
	case 0:
		hbody = []Stmt{&Return{Exprs: []Expr{Str{"H"}}}}
	case 1:
		hbody = []Stmt{&Return{Exprs: []Expr{Bin{"..", Str{"H."}, Var{e}}}}}
	default:
		hbody = []Stmt{&Call{Fn: Var{"error"}, Args: []Expr{Str{"E4"}, Num{0}}}}
	}
	g.prog.NFuncs++
	hdef := &FuncDef{ID: g.prog.NFuncs, Params: []string{e}, Body: hbody}
	g.globals = append(g.globals, &varInfo{name: gn, k: kFn, sig: sig0, global: true})
	ok, r, r1, r2 := g.fresh("ok"), g.fresh("xr"), g.fresh("er"), g.fresh("er")
	g.cost(20)
	out := []Stmt{
		&Local{Names: []string{body}, Exprs: []Expr{Func{bdef}}},
		&Local{Names: []string{h}, Exprs: []Expr{Func{hdef}}},
		&Call{Names: []string{ok, r}, Fn: Var{"xpcall"}, Args: []Expr{Var{body}, Var{h}}},
		g.emitVars("xe", ok, r),
	}
	out = append(out, g.sClobberN(30)...)
	out = append(out, &Call{Names: []string{r1}, Fn: Var{gn}}, &Call{Names: []string{r2}, Fn: Var{gn}}, g.emitVars("xe2", r1, r2))
	return out
}

func (g *gen) sPcall(fc *fctx, x bool) []Stmt {
	if x && g.feat("closure") && g.ch(6) == 0 {
		return g.sXpcallEscape(fc)
	}
	if !x && g.feat("closure") && g.feat("error") && g.ch(8) == 0 {
		return g.sRetry(fc)
	}
	if !x && g.feat("error") && g.ch(10) == 0 {
		return g.sRethrow(fc)
	}
	var out []Stmt
	var fname string
	var sig *fnSig
	if f := g.callable(fc); f != nil && !f.sig.yields && g.ch(3) == 0 && (!x || (f.sig.nparams == 0 && !f.global)) {
		fname, sig = f.name, f.sig
	} else {
		var pre []Stmt
		fname, sig, pre = g.protectedBody(fc, x)
		out = append(out, pre...)
	}
	if sig.yields {
		return g.sEmit(fc)
	}
	g.cost(sig.cost + 4)
	sv := g.fresh("sn")
	ok, a, b := g.fresh("ok"), g.fresh("ra"), g.fresh("rb")
	if x {
		g.use("xpcall")
		d0, hn, ep, dn := g.fresh("d"), g.fresh("hd"), g.fresh("e"), g.fresh("dd")
		g.prog.NFuncs++
		hbody := []Stmt{
			&Call{Names: []string{dn}, Fn: Var{"luadepth"}},
			&Call{Fn: Var{"emit"}, Args: []Expr{Str{hn}, Var{ep}, Bin{">=", Bin{"-", Var{dn}, Var{d0}}, Num{2}}}},
		}
		var hret Expr = Var{ep}
		noResult := false
		switch g.ch(6) {
		case 4:
			// the handler returns nil: that is what the caller receives
			g.use("handler_returns_nil")
			hret = Nil{}
		case 5:
			// the handler returns nothing at all
			g.use("handler_returns_nothing")
			noResult = true
		case 0:
			hret = Str{"H" + hn}
		case 1:
			hret = Num{float64(g.ch(50))}
		case 2:
			// a handler that itself fails for error values that are not strings or numbers
			g.use("handler_may_fail")
			hret = Bin{"..", Str{"H."}, Var{ep}}
		}
		if noResult {
			hbody = append(hbody, &Return{})
		} else {
			hbody = append(hbody, &Return{Exprs: []Expr{hret}})
		}
		hd := &FuncDef{ID: g.prog.NFuncs, Params: []string{ep}, Body: hbody}
		xcallee := g.goCallee("xpcall", &out)
		out = append(out,
			&Call{Names: []string{d0}, Fn: Var{"luadepth"}},
			&Local{Names: []string{hn}, Exprs: []Expr{Func{hd}}},
			&Call{Names: []string{sv}, Fn: Var{"snap"}},
			&Call{Names: []string{ok, a, b}, Fn: xcallee, Args: []Expr{Var{fname}, Var{hn}}},
			&Call{Fn: Var{"snap"}, Args: []Expr{Var{sv}}},
			g.emitVars("xp", ok, a, b))
	} else {
		g.use("pcall")
		args := append([]Expr{Var{fname}}, g.numArgs(sig.nparams)...)
		callee := g.goCallee("pcall", &out)
		out = append(out,
			&Call{Names: []string{sv}, Fn: Var{"snap"}},
			&Call{Names: []string{ok, a, b}, Fn: callee, Args: args},
			&Call{Fn: Var{"snap"}, Args: []Expr{Var{sv}}},
			g.emitVars("pc", ok, a, b))
	}
	g.declare(&varInfo{name: ok, k: kBool, fnLevel: fc.level})
	g.declare(&varInfo{name: a, k: kAny, fnLevel: fc.level})
	// probe: reuse registers, then look at state again
	if g.feat("clobber") && g.ch(2) == 0 {
		out = append(out, g.sClobber(fc)...)
	}
	out = append(out, g.sEmit(fc)...)
	return out
}

// messages with a per-cent sign: an error message is data, never a format
var errMsgs = []string{"E1", "E2", "E3", "E4", "P100%", "P%d%s"}

func (g *gen) sError(fc *fctx) []Stmt {
	g.use("error")
	var call *Call
	switch g.ch(9) {
	case 0, 1, 2:
		call = &Call{Fn: Var{"error"}, Args: []Expr{Str{errMsgs[g.ch(len(errMsgs))]}}}
	case 3:
		call = &Call{Fn: Var{"error"}, Args: []Expr{Str{errMsgs[g.ch(len(errMsgs))]}, Num{0}}}
	case 4:
		call = &Call{Fn: Var{"error"}, Args: []Expr{Str{errMsgs[g.ch(len(errMsgs))]}, Num{1}}}
	case 5:
		if t := g.pick(kTab); t != nil {
			call = &Call{Fn: Var{"error"}, Args: []Expr{Var{t.name}}}
		} else {
			call = &Call{Fn: Var{"error"}, Args: []Expr{TableCons{Keys: []string{"code"}, Vals: []Expr{Num{float64(g.ch(9))}}}}}
		}
	case 6:
		call = &Call{Fn: Var{"error"}, Args: []Expr{Num{float64(40 + g.ch(5))}}}
	case 7:
		call = &Call{Fn: Var{"error"}, Args: []Expr{[]Expr{Nil{}, True{}, False{}}[g.ch(3)]}}
	default:
		if g.feat("level2") {
			// level 2: only the presence of a position prefix is compared (message vocabulary L2*)
			g.use("level2")
			call = &Call{Fn: Var{"error"}, Args: []Expr{Str{"L2E" + fmt.Sprint(g.ch(3))}, Num{2}}}
		} else {
			call = &Call{Fn: Var{"error"}, Args: []Expr{Str{"E1"}}}
		}
	}
	if g.ch(3) != 0 {
		return []Stmt{&If{Conds: []Expr{g.boolNC(1)}, Blocks: [][]Stmt{{call}}}}
	}
	return []Stmt{call}
}

func (g *gen) sRtFault(fc *fctx) []Stmt {
	g.use("rtfault")
	z := g.fresh("z")
	q := g.fresh("q")
	var s []Stmt
	switch g.ch(4) {
	case 0: // index a nil local
		s = []Stmt{&Local{Names: []string{z}}, &Local{Names: []string{q}, Exprs: []Expr{Index{Var{z}, Str{"x"}}}}}
	case 1: // call a nil
		s = []Stmt{&Local{Names: []string{z}}, &Call{Fn: Var{z}, Args: []Expr{Num{1}}}}
	case 2: // arithmetic on a table
		s = []Stmt{&Local{Names: []string{z}, Exprs: []Expr{TableCons{}}}, &Local{Names: []string{q}, Exprs: []Expr{Bin{"+", Var{z}, Num{1}}}}}
	default: // compare number with string
		s = []Stmt{&Local{Names: []string{z}, Exprs: []Expr{Str{"a"}}}, &Local{Names: []string{q}, Exprs: []Expr{Bin{"<", Num{1}, Var{z}}}}}
	}
	if g.ch(3) != 0 {
		return []Stmt{&If{Conds: []Expr{g.boolNC(1)}, Blocks: [][]Stmt{s}}}
	}
	return []Stmt{&Do{Body: s}}
}

func (g *gen) sClobber(fc *fctx) []Stmt {
	g.use("clobber")
	n := []int{3, 10, 30, 60}[g.ch(4)]
	var args []Expr
	for i := 0; i < n; i++ {
		args = append(args, Num{float64(700 + i)})
	}
	return []Stmt{&Call{Fn: Var{"clobber"}, Args: args}}
}

func (g *gen) sHost(fc *fctx) []Stmt {
	f := g.callable(fc)
	if f == nil || f.sig.yields {
		return g.sEmit(fc)
	}
	for _, r := range f.sig.rets {
		if r.k == kFn {
			return g.sEmit(fc)
		}
	}
	g.cost(f.sig.cost + 3)
	args := append([]Expr{Var{f.name}}, g.numArgs(f.sig.nparams)...)
	if g.feat("hostpcall") && (g.ch(2) == 0 || !g.feat("hostcall")) {
		g.use("hostpcall")
		ok, a := g.fresh("ok"), g.fresh("ra")
		sv := g.fresh("sn")
		g.declare(&varInfo{name: ok, k: kBool, fnLevel: fc.level})
		var pre []Stmt
		callee := g.goCallee("hostpcall", &pre)
		return append(pre, &Call{Names: []string{sv}, Fn: Var{"snap"}},
			&Call{Names: []string{ok, a}, Fn: callee, Args: args},
			&Call{Fn: Var{"snap"}, Args: []Expr{Var{sv}}},
			g.emitVars("hp", ok, a))
	}
	g.use("hostcall")
	a, b := g.fresh("ra"), g.fresh("rb")
	var pre []Stmt
	callee := g.goCallee("hostcall", &pre)
	return append(pre, &Call{Names: []string{a, b}, Fn: callee, Args: args}, g.emitVars("hc", a, b))
}

// sRaisingTostring: a __tostring metamethod that raises, reached through library functions (tostring, string.format)
// under a protected call: the error must be delivered (tostring) or must not occur at all (gopher-lua's
// string.format does not consult __tostring), and the call depth is what it was.
func (g *gen) sRaisingTostring(fc *fctx) []Stmt {
	g.use("raising_tostring_under_library_functions")
	g.cost(40)
	mt, h, ob, sv, ok, r, ty, ok2, r2 := g.fresh("mt"), g.fresh("mh"), g.fresh("ob"), g.fresh("sn"), g.fresh("ok"), g.fresh("r"), g.fresh("ty"), g.fresh("ok"), g.fresh("r")
	g.prog.NFuncs++
	var hbody []Stmt
	if g.ch(3) == 0 {
		hbody = []Stmt{&Return{Exprs: []Expr{Str{"TS"}}}}
	} else {
		hbody = []Stmt{&Call{Fn: Var{"emit"}, Args: []Expr{Str{h}}}, &Call{Fn: Var{"error"}, Args: []Expr{Str{"tsfail"}}}}
	}
	hd := &FuncDef{ID: g.prog.NFuncs, Params: []string{g.fresh("t")}, Body: hbody}
	return []Stmt{&Do{Body: []Stmt{
		&Local{Names: []string{mt}, Exprs: []Expr{TableCons{}}},
		&Local{Names: []string{h}, Exprs: []Expr{Func{hd}}},
		&Assign{Targets: []Expr{Index{Var{mt}, Str{"__tostring"}}}, Exprs: []Expr{Var{h}}},
		&Call{Names: []string{ob}, Fn: Var{"setmetatable"}, Args: []Expr{TableCons{}, Var{mt}}},
		&Call{Names: []string{sv}, Fn: Var{"snap"}},
		&Call{Names: []string{ok, r}, Fn: Var{"pcall"}, Args: []Expr{Var{"strformat"}, Str{"%s"}, Var{ob}}},
		&Call{Fn: Var{"snap"}, Args: []Expr{Var{sv}}},
		&Call{Names: []string{ty}, Fn: Var{"type"}, Args: []Expr{Var{r}}},
		&Call{Fn: Var{"emit"}, Args: []Expr{Str{"sf"}, Var{ok}, Var{ty}}},
		&Call{Names: []string{sv}, Fn: Var{"snap"}},
		&Call{Names: []string{ok2, r2}, Fn: Var{"pcall"}, Args: []Expr{Var{"tostring"}, Var{ob}}},
		&Call{Fn: Var{"snap"}, Args: []Expr{Var{sv}}},
		&Call{Fn: Var{"emit"}, Args: []Expr{Str{"ts"}, Var{ok2}, Var{r2}}},
	}}}
}

// sShadowedUpvalueCapture: a function uses a variable of an enclosing function, then declares a local of the same
// name, then creates a closure that mentions the name: the closure captures the function's own local.
func (g *gen) sShadowedUpvalueCapture(fc *fctx) []Stmt {
	g.use("closure_over_a_local_that_shadows_an_upvalue")
	g.cost(30)
	f, a, gf, r1, x1, x2, x3, gg, x4 := g.fresh("F"), g.fresh("a"), g.fresh("g"), g.fresh("r"), g.fresh("x"), g.fresh("x"), g.fresh("x"), g.fresh("g"), g.fresh("x")
	g.prog.NFuncs++
	gd := &FuncDef{ID: g.prog.NFuncs, Body: []Stmt{
		&Assign{Targets: []Expr{Var{"v0"}}, Exprs: []Expr{Bin{"+", Var{"v0"}, Num{1}}}}, &Return{Exprs: []Expr{Var{"v0"}}}}}
	g.prog.NFuncs++
	shadow := Stmt(&Local{Names: []string{"v0"}, Exprs: []Expr{Num{float64(50 + g.ch(5))}}})
	var body []Stmt
	body = append(body, &Local{Names: []string{a}, Exprs: []Expr{Bin{"+", Var{"v0"}, Num{1}}}}) // the outer v0
	mk := []Stmt{shadow, &Local{Names: []string{gf}, Exprs: []Expr{Func{gd}}}, &Call{Names: []string{r1}, Fn: Var{gf}}}
	if g.ch(2) == 0 {
		// the shadowing local lives in an inner block; the closure escapes through a local of the function
		esc := g.fresh("ge")
		body = append(body, &Local{Names: []string{esc, r1}, Exprs: []Expr{Nil{}, Num{0}}},
			&Do{Body: []Stmt{shadow, &Local{Names: []string{gf}, Exprs: []Expr{Func{gd}}}, &Call{Targets: []Expr{Var{r1}}, Fn: Var{gf}}, &Assign{Targets: []Expr{Var{esc}}, Exprs: []Expr{Var{gf}}}}},
			&Return{Exprs: []Expr{Var{r1}, Var{"v0"}, Var{esc}, Var{a}}})
	} else {
		body = append(body, mk...)
		body = append(body, &Return{Exprs: []Expr{Var{r1}, Var{"v0"}, Var{gf}, Var{a}}})
	}
	fd := &FuncDef{ID: g.prog.NFuncs, Body: body}
	return []Stmt{&Do{Body: []Stmt{
		&Local{Names: []string{f}, Exprs: []Expr{Func{fd}}},
		&Call{Names: []string{x1, x2, gg, x4}, Fn: Var{f}},
		&Call{Names: []string{x3}, Fn: Var{gg}},
		&Call{Fn: Var{"emit"}, Args: []Expr{Str{"shu"}, Var{x1}, Var{x2}, Var{x3}, Var{x4}, Var{"v0"}}},
	}}}
}

func (g *gen) sMeta(fc *fctx) []Stmt {
	if g.feat("pcall") && g.feat("error") && g.ch(6) == 0 {
		return g.sRaisingTostring(fc)
	}
	g.use("meta")
	mt, h, obj, r := g.fresh("mt"), g.fresh("mh"), g.fresh("ob"), g.fresh("mr")
	g.prog.NFuncs++
	var fd *FuncDef
	var trigger Stmt
	var field string
	tp, kp := g.fresh("t"), g.fresh("k")
	hbody := []Stmt{}
	if g.ch(2) == 0 {
		hbody = append(hbody, &Call{Fn: Var{"emit"}, Args: []Expr{Str{h}, Var{kp}}})
	} else {
		hbody = append(hbody, &Call{Fn: Var{"clobber"}, Args: []Expr{Num{1}}})
	}
	g.push()
	g.declare(&varInfo{name: kp, k: kAny, fnLevel: fc.level + 1})
	g.ctxSeq++
	extra := g.stmtsIn(g.ch(2), &fctx{id: g.ctxSeq, level: fc.level + 1, isFunc: true, inCallback: true, protected: fc.protected, coID: fc.coID})
	g.pop()
	hbody = append(hbody, extra...)
	switch g.ch(3) {
	case 0:
		field = "__index"
		hbody = append(hbody, &Return{Exprs: []Expr{g.numExpr(0)}})
		fd = &FuncDef{ID: g.prog.NFuncs, Params: []string{tp, kp}, Body: hbody}
		trigger = &Local{Names: []string{r}, Exprs: []Expr{Index{Var{obj}, Str{"missing"}}}}
	case 1:
		field = "__add"
		hbody = append(hbody, &Return{Exprs: []Expr{g.numExpr(0)}})
		fd = &FuncDef{ID: g.prog.NFuncs, Params: []string{tp, kp}, Body: hbody}
		if g.ch(2) == 0 {
			trigger = &Local{Names: []string{r}, Exprs: []Expr{Bin{"+", Var{obj}, Num{1}}}}
		} else {
			trigger = &Local{Names: []string{r}, Exprs: []Expr{Bin{"+", Num{2}, Var{obj}}}}
		}
	default:
		field = "__call"
		hbody = append(hbody, &Return{Exprs: []Expr{g.numExpr(0)}})
		fd = &FuncDef{ID: g.prog.NFuncs, Params: []string{tp, kp}, Body: hbody}
		trigger = &Call{Names: []string{r}, Fn: Var{obj}, Args: []Expr{Num{float64(g.ch(9))}}}
	}
	g.cost(8)
	out := []Stmt{
		&Local{Names: []string{mt}, Exprs: []Expr{TableCons{}}},
		&Local{Names: []string{h}, Exprs: []Expr{Func{fd}}},
		&Assign{Targets: []Expr{Index{Var{mt}, Str{field}}}, Exprs: []Expr{Var{h}}},
		&Call{Names: []string{obj}, Fn: Var{"setmetatable"}, Args: []Expr{TableCons{}, Var{mt}}},
		trigger,
		g.emitVars("mt", r),
	}
	return out
}

func (g *gen) sSort(fc *fctx) []Stmt {
	g.use("sort")
	arr, cmp := g.fresh("ar"), g.fresh("cmp")
	a, b := g.fresh("a"), g.fresh("b")
	g.prog.NFuncs++
	body := []Stmt{}
	if g.ch(2) == 0 {
		body = append(body, &Call{Fn: Var{"clobber"}, Args: []Expr{Var{a}}})
	}
	op := "<"
	if g.ch(2) == 0 {
		op = ">"
	}
	body = append(body, &Return{Exprs: []Expr{Bin{op, Var{a}, Var{b}}}})
	fd := &FuncDef{ID: g.prog.NFuncs, Params: []string{a, b}, Body: body}
	perm := [][]float64{{3, 1, 2}, {5, 4, 3, 2, 1}, {1, 2}, {2, 9, 4, 7}}[g.ch(4)]
	var es []Expr
	for _, x := range perm {
		es = append(es, Num{x})
	}
	g.cost(30)
	return []Stmt{
		&Local{Names: []string{arr}, Exprs: []Expr{TableCons{Arr: es}}},
		&Local{Names: []string{cmp}, Exprs: []Expr{Func{fd}}},
		&Call{Fn: Var{"tsort"}, Args: []Expr{Var{arr}, Var{cmp}}},
		&Call{Fn: Var{"emit"}, Args: []Expr{Str{arr}, Un{"#", Var{arr}}}},
	}
}

// sProtectedBuiltinCallback: pcall directly over a builtin that calls back into Lua (string.gsub, table.sort); the
// callback creates a closure over one of its locals, lets it escape and raises. The closure keeps its variable.
func (g *gen) sProtectedBuiltinCallback(fc *fctx) []Stmt {
	g.use("pcall_over_builtin_with_failing_callback")
	g.cost(40)
	cb, x, y, cl, esc, ok, e, r1, r2 := g.fresh("cb"), g.fresh("x"), g.fresh("y"), g.fresh("cl"), g.fresh("GE"), g.fresh("ok"), g.fresh("e"), g.fresh("r"), g.fresh("r")
	g.prog.NFuncs++
	clDef := &FuncDef{ID: g.prog.NFuncs, Body: []Stmt{&Assign{Targets: []Expr{Var{x}}, Exprs: []Expr{Bin{"+", Var{x}, Num{1}}}}, &Return{Exprs: []Expr{Var{x}}}}}
	g.prog.NFuncs++
	cbDef := &FuncDef{ID: g.prog.NFuncs, Params: []string{"ca", "cb2"}, Body: []Stmt{
		&Local{Names: []string{y, x}, Exprs: []Expr{Num{7}, Num{float64(40 + g.ch(5))}}},
		&Local{Names: []string{cl}, Exprs: []Expr{Func{clDef}}},
		&Assign{Targets: []Expr{Var{esc}}, Exprs: []Expr{Var{cl}}},
		&Call{Fn: Var{cl}},
		&Call{Fn: Var{"error"}, Args: []Expr{Str{"cbfail"}}}}}
	out := []Stmt{&Local{Names: []string{cb}, Exprs: []Expr{Func{cbDef}}}}
	if g.feat("sort") && g.ch(2) == 0 {
		out = append(out, &Call{Names: []string{ok, e}, Fn: Var{"pcall"}, Args: []Expr{Var{"tsort"}, TableCons{Arr: []Expr{Num{3}, Num{1}, Num{2}}}, Var{cb}}})
	} else {
		out = append(out, &Call{Names: []string{ok, e}, Fn: Var{"pcall"}, Args: []Expr{Var{"gsub"}, Str{"ab"}, Str{"%a"}, Var{cb}}})
	}
	out = append(out, &Call{Fn: Var{"emit"}, Args: []Expr{Str{"pb"}, Var{ok}, Var{e}}})
	if g.feat("clobber") {
		out = append(out, g.sClobber(fc)...)
	}
	out = append(out, &Call{Names: []string{r1}, Fn: Var{esc}}, &Call{Names: []string{r2}, Fn: Var{esc}},
		&Call{Fn: Var{"emit"}, Args: []Expr{Str{"pb2"}, Var{r1}, Var{r2}}})
	return []Stmt{&Do{Body: out}}
}

func (g *gen) sGsub(fc *fctx) []Stmt {
	if g.feat("pcall") && g.feat("closure") && g.feat("error") && g.ch(4) == 0 {
		return g.sProtectedBuiltinCallback(fc)
	}
	g.use("gsub")
	cb, c := g.fresh("cb"), g.fresh("c")
	rs, rn := g.fresh("gs"), g.fresh("gn")
	g.prog.NFuncs++
	body := []Stmt{&Call{Fn: Var{"emit"}, Args: []Expr{Str{cb}, Var{c}}}}
	switch g.ch(3) {
	case 0:
		body = append(body, &Return{Exprs: []Expr{Bin{"..", Var{c}, Str{"x"}}}})
	case 1:
		body = append(body, &Return{Exprs: []Expr{Nil{}}})
	default:
		body = append(body, &Return{Exprs: []Expr{Str{"_"}}})
	}
	fd := &FuncDef{ID: g.prog.NFuncs, Params: []string{c}, Body: body}
	subj := []string{"ab1", "x", "q-r", "abc"}[g.ch(4)]
	pat := []string{"%a", "%w", "."}[g.ch(3)]
	g.cost(20)
	g.declare(&varInfo{name: rs, k: kStr, fnLevel: fc.level})
	g.declare(&varInfo{name: rn, k: kNum, fnLevel: fc.level})
	return []Stmt{
		&Local{Names: []string{cb}, Exprs: []Expr{Func{fd}}},
		&Call{Names: []string{rs, rn}, Fn: Var{"gsub"}, Args: []Expr{Str{subj}, Str{pat}, Var{cb}}},
		g.emitVars("gs", rs, rn),
	}
}

func (g *gen) sFenv(fc *fctx) []Stmt {
	g.use("fenv")
	env, fe, r, gv := g.fresh("env"), g.fresh("fe"), g.fresh("fr"), g.fresh("gx")
	inner, ir2 := g.fresh("fi"), g.fresh("fr")
	g.prog.NFuncs++
	innerDef := &FuncDef{ID: g.prog.NFuncs, Body: []Stmt{
		&Assign{Targets: []Expr{Var{gv}}, Exprs: []Expr{Bin{"+", Var{gv}, Num{10}}}},
		&Return{Exprs: []Expr{Var{gv}}}}}
	g.prog.NFuncs++
	body := []Stmt{
		&Assign{Targets: []Expr{Var{gv}}, Exprs: []Expr{Bin{"+", Var{gv}, Num{1}}}},
		&Local{Names: []string{inner}, Exprs: []Expr{Func{innerDef}}},
		&Return{Exprs: []Expr{Var{gv}, Var{inner}}},
	}
	byLevel := g.ch(3) == 0
	if byLevel {
		// the function changes its own environment: setfenv(1, env) as its first statement
		g.use("fenv_level")
		body = append([]Stmt{&Call{Fn: Var{"setfenv"}, Args: []Expr{Num{1}, Var{env}}}}, body...)
	}
	feDef := &FuncDef{ID: g.prog.NFuncs, Body: body}
	out := []Stmt{
		&Assign{Targets: []Expr{Var{gv}}, Exprs: []Expr{Num{float64(100 + g.ch(5))}}}, // the real global of that name
		&Local{Names: []string{env}, Exprs: []Expr{TableCons{Keys: []string{gv}, Vals: []Expr{Num{float64(g.ch(9))}}}}},
		&Local{Names: []string{fe}, Exprs: []Expr{Func{feDef}}},
	}
	if byLevel {
		// nothing to do before the call
	} else if g.ch(2) == 0 {
		out = append(out, &Call{Fn: Var{"setfenv"}, Args: []Expr{Var{fe}, Var{env}}})
	} else {
		// setfenv(1, env) from inside a helper would change the helper; use the function form twice instead
		ge := g.fresh("ge")
		out = append(out, &Call{Fn: Var{"setfenv"}, Args: []Expr{Var{fe}, Var{env}}},
			&Call{Names: []string{ge}, Fn: Var{"getfenv"}, Args: []Expr{Var{fe}}},
			&Call{Fn: Var{"emit"}, Args: []Expr{Str{ge}, Bin{"==", Var{ge}, Var{env}}}})
	}
	if g.ch(2) == 0 {
		// two instances of the same upvalue-free function expression are distinct objects with their own environment
		g.use("fenv_two_instances")
		mk, f0, f1, f2, a1, a2 := g.fresh("mk"), g.fresh("uf"), g.fresh("uf"), g.fresh("uf"), g.fresh("ur"), g.fresh("ur")
		g.prog.NFuncs++
		ufd := &FuncDef{ID: g.prog.NFuncs, Body: []Stmt{&Return{Exprs: []Expr{Var{gv}}}}}
		g.prog.NFuncs++
		mkd := &FuncDef{ID: g.prog.NFuncs, Body: []Stmt{&Local{Names: []string{f0}, Exprs: []Expr{Func{ufd}}}, &Return{Exprs: []Expr{Var{f0}}}}}
		out = append(out,
			&Local{Names: []string{mk}, Exprs: []Expr{Func{mkd}}},
			&Call{Names: []string{f1}, Fn: Var{mk}}, &Call{Names: []string{f2}, Fn: Var{mk}},
			&Call{Fn: Var{"setfenv"}, Args: []Expr{Var{f1}, Var{env}}},
			&Call{Names: []string{a1}, Fn: Var{f1}}, &Call{Names: []string{a2}, Fn: Var{f2}},
			&Call{Fn: Var{"emit"}, Args: []Expr{Str{mk}, Var{a1}, Var{a2}, Bin{"==", Var{f1}, Var{f2}}}})
	}
	g.cost(12)
	out = append(out,
		&Call{Names: []string{r, inner}, Fn: Var{fe}},
		&Call{Names: []string{ir2}, Fn: Var{inner}},
		&Call{Fn: Var{"emit"}, Args: []Expr{Str{fe}, Var{r}, Var{ir2}, Index{Var{env}, Str{gv}}, Var{gv}}},
	)
	if g.ch(3) == 0 {
		// setfenv(2, env) from a helper changes the environment of the helper's caller; when the helper was reached
		// by a tail call from an intermediate function, its caller is the function that called the intermediate one
		g.use("fenv_level2")
		env2, helper, mid, tf, hr, mr, tr, gl := g.fresh("env"), g.fresh("fh"), g.fresh("fm"), g.fresh("ft"), g.fresh("hr"), g.fresh("mr"), g.fresh("tr"), g.fresh("gl")
		nf := func(body ...Stmt) Func {
			g.prog.NFuncs++
			return Func{&FuncDef{ID: g.prog.NFuncs, Body: body}}
		}
		var midBody []Stmt
		if g.ch(2) == 0 {
			g.use("fenv_level2_through_tail_call")
			midBody = []Stmt{&ReturnCall{Fn: Var{helper}}}
		} else {
			midBody = []Stmt{&Call{Names: []string{mr}, Fn: Var{helper}}, &Return{Exprs: []Expr{Var{gv}}}}
		}
		out = append(out,
			&Local{Names: []string{env2}, Exprs: []Expr{TableCons{Keys: []string{gv}, Vals: []Expr{Num{float64(20 + g.ch(9))}}}}},
			&Local{Names: []string{helper}, Exprs: []Expr{nf(&Call{Fn: Var{"setfenv"}, Args: []Expr{Num{2}, Var{env2}}}, &Return{Exprs: []Expr{Num{1}}})}},
			&Local{Names: []string{mid}, Exprs: []Expr{nf(midBody...)}},
			&Local{Names: []string{tf}, Exprs: []Expr{nf(&Call{Names: []string{hr}, Fn: Var{mid}}, &Return{Exprs: []Expr{Var{hr}, Var{gv}}})}},
			&Call{Names: []string{tr, gl}, Fn: Var{tf}},
			&Call{Fn: Var{"emit"}, Args: []Expr{Str{tf}, Var{tr}, Var{gl}, Var{gv}}})
	}
	return out
}

// ---- coroutines ----

func (g *gen) yieldArity() int {
	if g.p.YieldFix >= 0 {
		return g.p.YieldFix
	}
	return g.ch(4)
}

func (g *gen) coBody(fc *fctx) (string, *fnSig, []Stmt) {
	g.coSeq++
	id := g.coSeq
	name := g.fresh("cb")
	np := g.yieldArity()
	pre := func(fc2 *fctx) []Stmt {
		var ps []Expr
		vs := g.visible(func(v *varInfo) bool { return v.fnLevel == fc2.level })
		for _, v := range vs {
			ps = append(ps, Var{v.name})
		}
		out := []Stmt{&Call{Fn: Var{"emit"}, Args: append([]Expr{Str{name}}, ps...)}}
		if g.feat("selfstatus") {
			// remember the running coroutine; report the status of every enclosing coroutine that is
			// visible from here: own -> running, the resumer up the chain -> normal, others -> suspended/dead
			g.use("selfstatus")
			me := g.fresh("me")
			selfs := g.visible(func(v *varInfo) bool { return v.k == kSelf })
			out = append(out, &Call{Names: []string{me}, Fn: Var{"corunning"}})
			g.declare(&varInfo{name: me, k: kSelf, fnLevel: fc2.level})
			args := []Expr{Str{"self"}}
			for i, sv := range append([]*varInfo{{name: me}}, selfs...) {
				if i >= 3 {
					break
				}
				stn := g.fresh("ss")
				out = append(out, &Call{Names: []string{stn}, Fn: Var{"costatus"}, Args: []Expr{Var{sv.name}}})
				args = append(args, Var{stn})
			}
			out = append(out, &Call{Fn: Var{"emit"}, Args: args})
			// resuming oneself (running) or an enclosing coroutine (normal) is refused and changes nothing
			for i, sv := range append([]*varInfo{{name: me}}, selfs...) {
				if i >= 2 || g.ch(2) == 0 {
					continue
				}
				// whether the refusal comes back as (false, msg) or as a raised error depends on how the target was
				// created (gopher-lua raises for wrap coroutines); only "it was refused" is observed
				okn, en := g.fresh("ok"), g.fresh("re")
				out = append(out, &Call{Names: []string{okn, en}, Fn: Var{"pcall"}, Args: []Expr{Var{"coresume"}, Var{sv.name}, Num{1}}},
					&Call{Fn: Var{"emit"}, Args: []Expr{Str{"refuse"}, Bin{"and", Var{okn}, Var{en}}}})
				g.use("resume_running_or_normal")
			}
		}
		return out
	}
	// the body: statements interleaved with yields
	fd := &FuncDef{}
	g.prog.NFuncs++
	fd.ID = g.prog.NFuncs
	g.ctxSeq++
	fc2 := &fctx{id: g.ctxSeq, level: fc.level + 1, canYield: true, coID: id, isFunc: true, protected: fc.protected + 1}
	oldEst, oldMult := g.est, g.mult
	g.est, g.mult = 0, 1
	g.push()
	g.nloc = np
	for i := 0; i < np; i++ {
		p := g.fresh("p")
		fd.Params = append(fd.Params, p)
		g.declare(&varInfo{name: p, k: kAny, fnLevel: fc2.level})
	}
	body := pre(fc2)
	if g.feat("nested_yield") && g.ch(3) == 0 {
		// a helper that yields from one call level deeper
		g.use("nested_yield")
		hn := g.fresh("yh")
		hfd, hsig := g.funcDef(fc2, 1, []retT{{k: kAny}}, true, id, false, g.ch(2), func(fc3 *fctx) []Stmt { return g.yieldStmt(fc3) }, fc2.protected)
		hsig.yields = true
		g.declare(&varInfo{name: hn, k: kFn, sig: hsig, fnLevel: fc2.level})
		body = append(body, &Local{Names: []string{hn}, Exprs: []Expr{Func{hfd}}})
	}
	if g.feat("closure") && g.ch(3) == 0 {
		// a higher-register local is captured before a lower-register one, as the first captures of this thread
		g.use("descending_capture")
		la, lb, fa, fb := g.fresh("da"), g.fresh("db"), g.fresh("df"), g.fresh("df")
		ga, gb := g.fresh("GD"), g.fresh("GD")
		sig0 := &fnSig{nparams: 0, rets: []retT{{k: kNum}}, cost: 4}
		mkf := func(v string) *FuncDef {
			g.prog.NFuncs++
			return &FuncDef{ID: g.prog.NFuncs, Body: []Stmt{&Assign{Targets: []Expr{Var{v}}, Exprs: []Expr{Bin{"+", Var{v}, Num{1}}}}, &Return{Exprs: []Expr{Var{v}}}}}
		}
		body = append(body,
			&Local{Names: []string{la, lb}, Exprs: []Expr{Num{100}, Num{200}}},
			&Local{Names: []string{fb}, Exprs: []Expr{Func{mkf(lb)}}},
			&Local{Names: []string{fa}, Exprs: []Expr{Func{mkf(la)}}},
			&Assign{Targets: []Expr{Var{ga}}, Exprs: []Expr{Var{fa}}}, &Assign{Targets: []Expr{Var{gb}}, Exprs: []Expr{Var{fb}}})
		g.globals = append(g.globals, &varInfo{name: ga, k: kFn, sig: sig0, global: true}, &varInfo{name: gb, k: kFn, sig: sig0, global: true})
	}
	ny := 1 + g.ch(3)
	var uvName, ufName string
	if g.feat("closure") && g.ch(3) == 0 {
		// a closure over a local of the very function that yields: both keep sharing it across suspensions
		g.use("upvalue_across_yield")
		uvName, ufName = g.fresh("uv"), g.fresh("uf")
		gu := g.fresh("GU")
		g.prog.NFuncs++
		ufd := &FuncDef{ID: g.prog.NFuncs, Body: []Stmt{&Assign{Targets: []Expr{Var{uvName}}, Exprs: []Expr{Bin{"+", Var{uvName}, Num{1}}}}, &Return{Exprs: []Expr{Var{uvName}}}}}
		body = append(body, &Local{Names: []string{uvName}, Exprs: []Expr{Num{float64(1 + g.ch(5))}}}, &Local{Names: []string{ufName}, Exprs: []Expr{Func{ufd}}},
			&Assign{Targets: []Expr{Var{gu}}, Exprs: []Expr{Var{ufName}}})
		g.globals = append(g.globals, &varInfo{name: gu, k: kFn, sig: &fnSig{nparams: 0, rets: []retT{{k: kNum}}, cost: 4}, global: true})
	}
	for y := 0; y < ny; y++ {
		body = append(body, g.stmtsIn(g.ch(3), fc2)...)
		if g.feat("yield_boundary") && g.ch(4) == 0 {
			body = append(body, g.yieldBoundary(fc2)...)
		}
		body = append(body, g.yieldStmt(fc2)...)
		if uvName != "" {
			r := g.fresh("ur")
			body = append(body,
				&Assign{Targets: []Expr{Var{uvName}}, Exprs: []Expr{Bin{"+", Var{uvName}, Num{10}}}},
				&Call{Names: []string{r}, Fn: Var{ufName}},
				&Call{Fn: Var{"emit"}, Args: []Expr{Str{uvName}, Var{r}, Var{uvName}}})
		}
	}
	body = append(body, g.stmtsIn(g.ch(2), fc2)...)
	nr := g.yieldArity()
	var rets []Expr
	for i := 0; i < nr; i++ {
		rets = append(rets, g.numExpr(0))
	}
	if g.feat("tail_yield") && g.ch(4) == 0 {
		// `return coroutine.yield(...)`: the next resume's values become the body's results
		g.use("tail_yield")
		body = append(body, &ReturnCall{Fn: Var{"coyield"}, Args: rets})
	} else {
		body = append(body, &Return{Exprs: rets})
	}
	g.pop()
	cost := g.est + 5
	g.est, g.mult = oldEst, oldMult
	fd.Body = body
	sig := &fnSig{nparams: np, yields: true, cost: cost}
	for i := 0; i < nr; i++ {
		sig.rets = append(sig.rets, retT{k: kAny})
	}
	g.declare(&varInfo{name: name, k: kAny, sig: sig, fnLevel: fc.level})
	return name, sig, []Stmt{&Local{Names: []string{name}, Exprs: []Expr{Func{fd}}}}
}

// yieldBoundary: a yield attempted while a host function that called back into Lua is on the coroutine's
// stack (pcall/xpcall, a metamethod, a generic-for iterator, a sort comparator, a gsub callback, a host
// function). Lua 5.1 refuses it with an error raised at the yield; the coroutine stays running, nothing
// is transferred, and later yields work as before.
func (g *gen) yieldBoundary(fc *fctx) []Stmt {
	g.use("yield_across_boundary")
	g.cost(25)
	ok, e, tmp := g.fresh("ok"), g.fresh("ye"), g.fresh("yt")
	var yield Stmt = &Call{Fn: Var{"coyield"}, Args: []Expr{g.numExpr(0)}}
	unreachable := &Call{Fn: Var{"emit"}, Args: []Expr{Str{"unreachable"}}}
	tail := g.ch(3) == 0
	if tail {
		// the refused yield stands in tail position: `return coroutine.yield(v)`
		g.use("yield_across_boundary_in_tail_position")
		yield = &ReturnCall{Fn: Var{"coyield"}, Args: []Expr{g.numExpr(0)}}
	}
	// function literals are bound to a local first (the renderer's rule); def returns the declaration and the name
	def := func(params []string, body ...Stmt) (Stmt, Var) {
		if tail {
			// nothing may follow a return
			for k, st := range body {
				if st == yield {
					body = body[:k+1]
					break
				}
			}
		}
		g.prog.NFuncs++
		n := g.fresh("bf")
		return &Local{Names: []string{n}, Exprs: []Expr{Func{&FuncDef{ID: g.prog.NFuncs, Params: params, Body: body}}}}, Var{n}
	}
	kinds := []int{0, 1}
	if g.feat("meta") {
		kinds = append(kinds, 2, 3)
	}
	if g.feat("sort") {
		kinds = append(kinds, 4)
	}
	if g.feat("gsub") {
		kinds = append(kinds, 5)
	}
	if g.feat("loop") {
		kinds = append(kinds, 6)
	}
	if g.feat("hostcall") {
		kinds = append(kinds, 7)
	}
	var inner []Stmt // statements that attempt the yield below a host-function boundary
	direct := false  // pcall(coyield, v): the yield function itself is what the nested loop starts with
	switch kinds[g.ch(len(kinds))] {
	case 0:
		inner = []Stmt{yield, unreachable}
	case 1:
		direct = true
	case 2, 3:
		mt, ob := g.fresh("mt"), g.fresh("ob")
		field, trig := "__index", Expr(Index{Var{ob}, Str{"missing"}})
		if g.ch(2) == 0 {
			field, trig = "__add", Bin{"+", Var{ob}, Num{1}}
		}
		d, f := def([]string{g.fresh("t"), g.fresh("k")}, yield, unreachable, &Return{Exprs: []Expr{Num{1}}})
		inner = []Stmt{
			&Local{Names: []string{mt}, Exprs: []Expr{TableCons{}}},
			d,
			&Assign{Targets: []Expr{Index{Var{mt}, Str{field}}}, Exprs: []Expr{f}},
			&Call{Names: []string{ob}, Fn: Var{"setmetatable"}, Args: []Expr{TableCons{}, Var{mt}}},
			&Local{Names: []string{tmp}, Exprs: []Expr{trig}},
			unreachable,
		}
	case 4:
		a, b := g.fresh("a"), g.fresh("b")
		d, f := def([]string{a, b}, yield, unreachable, &Return{Exprs: []Expr{Bin{"<", Var{a}, Var{b}}}})
		inner = []Stmt{d, &Call{Fn: Var{"tsort"}, Args: []Expr{TableCons{Arr: []Expr{Num{3}, Num{1}, Num{2}}}, f}}, unreachable}
	case 5:
		d, f := def([]string{g.fresh("c")}, yield, unreachable, &Return{Exprs: []Expr{Str{"x"}}})
		inner = []Stmt{d, &Call{Names: []string{tmp}, Fn: Var{"gsub"}, Args: []Expr{Str{"ab"}, Str{"%a"}, f}}, unreachable}
	case 6:
		d, f := def(nil, yield, unreachable, &Return{Exprs: []Expr{Nil{}}})
		inner = []Stmt{d, &GenFor{Names: []string{g.fresh("it")}, Exprs: []Expr{f}, Body: []Stmt{unreachable}}, unreachable}
	default:
		d, f := def(nil, yield, unreachable, &Return{Exprs: []Expr{Num{1}}})
		inner = []Stmt{d, &Call{Names: []string{tmp}, Fn: Var{"hostcall"}, Args: []Expr{f}}, unreachable}
	}
	var out []Stmt
	switch {
	case direct:
		out = []Stmt{&Call{Names: []string{ok, e}, Fn: Var{"pcall"}, Args: []Expr{Var{"coyield"}, g.numExpr(0)}}}
	case g.feat("xpcall") && g.ch(3) == 0:
		h := g.fresh("h")
		d1, f1 := def(nil, inner...)
		d2, f2 := def([]string{h}, &Return{Exprs: []Expr{Var{h}}})
		out = []Stmt{d1, d2, &Call{Names: []string{ok, e}, Fn: Var{"xpcall"}, Args: []Expr{f1, f2}}}
	case g.ch(8) == 0 && !tail:
		// unprotected: the refusal kills the coroutine like any other error
		g.use("yield_across_boundary_unprotected")
		return inner
	default:
		d1, f1 := def(nil, inner...)
		out = []Stmt{d1, &Call{Names: []string{ok, e}, Fn: Var{"pcall"}, Args: []Expr{f1}}}
	}
	return append(out, &Call{Fn: Var{"emit"}, Args: []Expr{Str{"yb"}, Var{ok}, Var{e}}})
}

func (g *gen) yieldStmt(fc *fctx) []Stmt {
	fc.yielded = true
	g.use("yield")
	n := g.yieldArity()
	var args []Expr
	for i := 0; i < n; i++ {
		args = append(args, g.numExpr(0))
	}
	nr := g.yieldArity()
	var names []string
	for i := 0; i < nr; i++ {
		nm := g.fresh("y")
		names = append(names, nm)
		g.declare(&varInfo{name: nm, k: kAny, fnLevel: fc.level})
	}
	c := &Call{Names: names, Fn: Var{"coyield"}, Args: args}
	if g.feat("hostcall") && g.ch(5) == 0 {
		// suspend through the Go API (a host function that returns L.Yield(...)): the number of values yielded is
		// independent of the number of arguments the host function received
		g.use("yield_from_host_function")
		c = &Call{Names: names, Fn: Var{"hostyield"}, Args: []Expr{Num{float64(g.ch(4))}, Num{float64(100 * (1 + g.ch(9)))}}}
	}
	out := []Stmt{c}
	if len(names) > 0 {
		out = append(out, g.emitVars("y", names...))
	}
	return out
}

// sRetry: the same function is called again at the same stack depth after a protected call of it failed while
// closures over its locals were open (a retry loop). The second activation must get fresh variables, shared with
// its own closures only; a closure that escaped from the failed activation keeps its own. In one case in two the
// whole thing runs inside a fresh coroutine, where nothing else holds an open upvalue.
// sRethrow: a caught message is raised again; it gains a second position prefix (the property: a string raised at
// level 1 from Lua code gains the position prefix - also a string that already starts with one).
func (g *gen) sRethrow(fc *fctx) []Stmt {
	g.use("rethrow_a_caught_message")
	g.cost(25)
	in, ok, e, ok2, e2 := g.fresh("bf"), g.fresh("ok"), g.fresh("e"), g.fresh("ok"), g.fresh("e")
	g.prog.NFuncs++
	inner := &FuncDef{ID: g.prog.NFuncs, Body: []Stmt{&Call{Fn: Var{"error"}, Args: []Expr{Str{"inner"}}}}}
	g.prog.NFuncs++
	outer := &FuncDef{ID: g.prog.NFuncs, Body: []Stmt{
		&Local{Names: []string{in}, Exprs: []Expr{Func{inner}}},
		&Call{Names: []string{ok, e}, Fn: Var{"pcall"}, Args: []Expr{Var{in}}},
		&Call{Fn: Var{"error"}, Args: []Expr{Var{e}}}}}
	of := g.fresh("bf")
	return []Stmt{&Do{Body: []Stmt{
		&Local{Names: []string{of}, Exprs: []Expr{Func{outer}}},
		&Call{Names: []string{ok2, e2}, Fn: Var{"pcall"}, Args: []Expr{Var{of}}},
		&Call{Fn: Var{"emit"}, Args: []Expr{Str{"rethrow"}, Var{ok2}, Var{e2}}}}}}
}

func (g *gen) sRetry(fc *fctx) []Stmt {
	g.use("retry_same_registers")
	g.cost(60)
	at, fl, gesc := g.fresh("at"), g.fresh("fl"), g.fresh("GR")
	nc := 1 + g.ch(3)
	var body []Stmt
	var cs, fs []string
	for i := 0; i < nc; i++ {
		c, f := g.fresh("rc"), g.fresh("rb")
		cs, fs = append(cs, c), append(fs, f)
		g.prog.NFuncs++
		body = append(body, &Local{Names: []string{c}, Exprs: []Expr{Num{float64(g.ch(5))}}},
			&Local{Names: []string{f}, Exprs: []Expr{Func{&FuncDef{ID: g.prog.NFuncs, Body: []Stmt{
				&Assign{Targets: []Expr{Var{c}}, Exprs: []Expr{Bin{"+", Var{c}, Num{1}}}}, &Return{Exprs: []Expr{Var{c}}}}}}}})
	}
	for _, f := range fs {
		body = append(body, &Call{Fn: Var{f}})
	}
	var failing Stmt = &Call{Fn: Var{"error"}, Args: []Expr{Str{"boom"}}}
	if g.feat("hostcall") && g.ch(3) == 0 {
		failing = &Call{Fn: Var{"error"}, Args: []Expr{TableCons{}}}
	}
	body = append(body, &If{Conds: []Expr{Var{fl}}, Blocks: [][]Stmt{{
		&Assign{Targets: []Expr{Var{gesc}}, Exprs: []Expr{Var{fs[g.ch(nc)]}}}, failing}}})
	for _, f := range fs {
		body = append(body, &Call{Fn: Var{f}})
	}
	var sum Expr = Var{cs[0]}
	for _, c := range cs[1:] {
		sum = Bin{"+", Bin{"*", sum, Num{10}}, Var{c}}
	}
	body = append(body, &Return{Exprs: []Expr{sum}})
	g.prog.NFuncs++
	inner := []Stmt{&Local{Names: []string{at}, Exprs: []Expr{Func{&FuncDef{ID: g.prog.NFuncs, Params: []string{fl}, Body: body}}}}}
	n := 2 + g.ch(2)
	for i := 0; i < n; i++ {
		var flag Expr = False{}
		if i == 0 || g.ch(3) == 0 {
			flag = True{}
		}
		ok, r := g.fresh("ok"), g.fresh("rr")
		inner = append(inner, &Call{Names: []string{ok, r}, Fn: Var{"pcall"}, Args: []Expr{Var{at}, flag}},
			&Call{Fn: Var{"emit"}, Args: []Expr{Str{"rt"}, Var{ok}, Bin{"and", Var{ok}, Var{r}}}})
	}
	ge := g.fresh("ge")
	inner = append(inner, &Call{Names: []string{ge}, Fn: Var{gesc}}, &Call{Fn: Var{"emit"}, Args: []Expr{Str{"rg"}, Var{ge}}})
	if !g.feat("coroutine") || g.ch(2) == 0 {
		return []Stmt{&Do{Body: inner}}
	}
	g.use("retry_in_fresh_coroutine")
	cf, co, ok, e := g.fresh("cf"), g.fresh("co"), g.fresh("ok"), g.fresh("ce")
	g.prog.NFuncs++
	return []Stmt{&Local{Names: []string{cf}, Exprs: []Expr{Func{&FuncDef{ID: g.prog.NFuncs, Body: inner}}}},
		&Call{Names: []string{co}, Fn: Var{"cocreate"}, Args: []Expr{Var{cf}}},
		&Call{Names: []string{ok, e}, Fn: Var{"coresume"}, Args: []Expr{Var{co}}},
		&Call{Fn: Var{"emit"}, Args: []Expr{Str{"rco"}, Var{ok}, Var{e}}}}
}

// sThreeGen: three generations of coroutines by creation (A creates B, B creates C); C escapes through a global
// and is resumed from outside while A is suspended, and again after A and B are dead. A coroutine's life is
// independent of its creator's.
func (g *gen) sThreeGen(fc *fctx) []Stmt {
	g.use("three_generations")
	g.cost(80)
	gc := g.fresh("GC")
	fa, fb, fcn, a, b := g.fresh("fa"), g.fresh("fb"), g.fresh("fc"), g.fresh("ca"), g.fresh("cb")
	p, y1, y2 := g.fresh("p"), g.fresh("y"), g.fresh("y")
	nf := func(params []string, body ...Stmt) Func {
		g.prog.NFuncs++
		return Func{&FuncDef{ID: g.prog.NFuncs, Params: params, Body: body}}
	}
	emit := func(tag string, names ...string) Stmt { return g.emitVars(tag, names...) }
	cBody := nf([]string{p},
		&Call{Names: []string{y1}, Fn: Var{"coyield"}, Args: []Expr{Bin{"+", Var{p}, Num{1}}}}, emit("c1", y1),
		&Call{Names: []string{y2}, Fn: Var{"coyield"}, Args: []Expr{Bin{"+", Var{y1}, Num{1}}}}, emit("c2", y2),
		&Return{Exprs: []Expr{Bin{"+", Var{y2}, Num{1}}}})
	okb, rb := g.fresh("ok"), g.fresh("r")
	bStmts := []Stmt{&Local{Names: []string{fcn}, Exprs: []Expr{cBody}},
		&Call{Targets: []Expr{Var{gc}}, Fn: Var{"cocreate"}, Args: []Expr{Var{fcn}}},
		&Call{Names: []string{okb, rb}, Fn: Var{"coresume"}, Args: []Expr{Var{gc}, Num{float64(g.ch(9))}}}, emit("b", okb, rb)}
	bYields := g.ch(2) == 0
	if bYields {
		bStmts = append(bStmts, &Call{Fn: Var{"coyield"}, Args: []Expr{Num{7}}})
	}
	oka, ra := g.fresh("ok"), g.fresh("r")
	aStmts := []Stmt{&Local{Names: []string{fb}, Exprs: []Expr{nf(nil, bStmts...)}},
		&Call{Names: []string{b}, Fn: Var{"cocreate"}, Args: []Expr{Var{fb}}},
		&Call{Names: []string{oka, ra}, Fn: Var{"coresume"}, Args: []Expr{Var{b}}}, emit("a", oka, ra)}
	aYields := g.ch(2) == 0
	if aYields {
		aStmts = append(aStmts, &Call{Fn: Var{"coyield"}, Args: []Expr{Num{8}}})
	}
	if bYields && g.ch(2) == 0 {
		// A lets B finish before it ends itself
		ok2 := g.fresh("ok")
		aStmts = append(aStmts, &Call{Names: []string{ok2}, Fn: Var{"coresume"}, Args: []Expr{Var{b}}}, emit("a2", ok2))
	}
	ok1, r1, ok2, r2, ok3, r3, st := g.fresh("ok"), g.fresh("r"), g.fresh("ok"), g.fresh("r"), g.fresh("ok"), g.fresh("r"), g.fresh("st")
	out := []Stmt{&Local{Names: []string{fa}, Exprs: []Expr{nf(nil, aStmts...)}},
		&Call{Names: []string{a}, Fn: Var{"cocreate"}, Args: []Expr{Var{fa}}},
		&Call{Names: []string{ok1, r1}, Fn: Var{"coresume"}, Args: []Expr{Var{a}}}, emit("m1", ok1, r1),
		&Call{Names: []string{ok2, r2}, Fn: Var{"coresume"}, Args: []Expr{Var{gc}, Num{10}}}, emit("m2", ok2, r2)}
	if aYields {
		ok4 := g.fresh("ok")
		out = append(out, &Call{Names: []string{ok4}, Fn: Var{"coresume"}, Args: []Expr{Var{a}}}, emit("m3", ok4))
	}
	out = append(out, &Call{Names: []string{ok3, r3}, Fn: Var{"coresume"}, Args: []Expr{Var{gc}, Num{20}}},
		&Call{Names: []string{st}, Fn: Var{"costatus"}, Args: []Expr{Var{gc}}}, emit("m4", ok3, r3, st))
	return []Stmt{&Do{Body: out}}
}

func (g *gen) sCo(fc *fctx) []Stmt {
	// inside a coroutine body a plain yield is also a "co" statement
	if fc.canYield && !fc.inCallback && g.ch(3) == 0 {
		return g.yieldStmt(fc)
	}
	g.use("coroutine")
	if g.ch(14) == 0 {
		return g.sThreeGen(fc)
	}
	if g.ch(16) == 0 {
		return g.sSiblings(fc)
	}
	if g.ch(10) == 0 {
		// a coroutine whose body is a builtin or a host function
		g.use("coroutine_over_go_function")
		co, ok, a, b, st := g.fresh("co"), g.fresh("ok"), g.fresh("ga"), g.fresh("gb"), g.fresh("st")
		var fn string
		var args []Expr
		if g.ch(4) == 0 {
			// the body is the yield function itself: it yields what it is given, and what the next resume is given
			// are its results
			g.use("coroutine_over_yield")
			ok2, c, st2 := g.fresh("ok"), g.fresh("gc"), g.fresh("st")
			return []Stmt{&Call{Names: []string{co}, Fn: Var{"cocreate"}, Args: []Expr{Var{"coyield"}}},
				&Call{Names: []string{ok, a, b}, Fn: Var{"coresume"}, Args: []Expr{Var{co}, g.numExpr(0), g.numExpr(0)}},
				&Call{Names: []string{st}, Fn: Var{"costatus"}, Args: []Expr{Var{co}}}, g.emitVars("gy", ok, a, b, st),
				&Call{Names: []string{ok2, c}, Fn: Var{"coresume"}, Args: []Expr{Var{co}, g.numExpr(0)}},
				&Call{Names: []string{st2}, Fn: Var{"costatus"}, Args: []Expr{Var{co}}}, g.emitVars("gy2", ok2, c, st2)}
		}
		switch g.ch(4) {
		case 0:
			fn, args = "emit", []Expr{Str{"gofn"}, g.numExpr(0)}
		case 1:
			fn, args = "select", []Expr{Str{"#"}, g.numExpr(0), g.numExpr(0)}
		case 2:
			fn, args = "type", []Expr{g.numExpr(0)}
		default:
			fn, args = "rawequal", []Expr{g.numExpr(0), g.numExpr(0)}
		}
		if g.feat("wrap") && g.ch(2) == 0 {
			return []Stmt{&Call{Names: []string{co}, Fn: Var{"cowrap"}, Args: []Expr{Var{fn}}},
				&Call{Names: []string{ok, a, b}, Fn: Var{"pcall"}, Args: append([]Expr{Var{co}}, args...)}, g.emitVars("gw", ok, a, b),
				&Call{Names: []string{ok + "b", a + "b"}, Fn: Var{"pcall"}, Args: []Expr{Var{co}}}, g.emitVars("gw2", ok+"b")}
		}
		return []Stmt{&Call{Names: []string{co}, Fn: Var{"cocreate"}, Args: []Expr{Var{fn}}},
			&Call{Names: []string{ok, a, b}, Fn: Var{"coresume"}, Args: append([]Expr{Var{co}}, args...)},
			&Call{Names: []string{st}, Fn: Var{"costatus"}, Args: []Expr{Var{co}}}, g.emitVars("gc", ok, a, b, st)}
	}
	// resume an existing coroutine or create a new one
	own := g.visible(func(v *varInfo) bool { return v.k == kCo && v.coOwner == fc.id })
	if len(own) > 0 && g.ch(3) != 0 {
		co := own[g.ch(len(own))]
		return g.resumeStmts(fc, co)
	}
	name, sig, out := g.coBody(fc)
	g.cost(sig.cost)
	if g.feat("wrap") && g.ch(3) == 0 {
		g.use("wrap")
		w := g.fresh("w")
		wsig := &fnSig{nparams: sig.nparams, rets: sig.rets, wrap: true, cost: sig.cost}
		g.declare(&varInfo{name: w, k: kFn, sig: wsig, fnLevel: fc.level, coOwner: fc.id})
		out = append(out, &Call{Names: []string{w}, Fn: Var{"cowrap"}, Args: []Expr{Var{name}}})
		n := 1 + g.ch(3)
		for i := 0; i < n; i++ {
			out = append(out, g.wrapCall(fc, w, wsig)...)
		}
		return out
	}
	co := g.fresh("co")
	cv := &varInfo{name: co, k: kCo, sig: sig, fnLevel: fc.level, coOwner: fc.id}
	g.declare(cv)
	out = append(out, &Call{Names: []string{co}, Fn: Var{"cocreate"}, Args: []Expr{Var{name}}})
	n := 1 + g.ch(3)
	for i := 0; i < n; i++ {
		out = append(out, g.resumeStmts(fc, cv)...)
	}
	return out
}

func (g *gen) resumeStmts(fc *fctx, co *varInfo) []Stmt {
	g.use("resume")
	g.cost(co.sig.cost)
	na := g.yieldArity()
	args := []Expr{Var{co.name}}
	for i := 0; i < na; i++ {
		args = append(args, g.numExpr(0))
	}
	ok, a, b, st := g.fresh("ok"), g.fresh("ya"), g.fresh("yb"), g.fresh("st")
	sv := g.fresh("sn")
	g.declare(&varInfo{name: ok, k: kBool, fnLevel: fc.level})
	out := []Stmt{
		&Call{Names: []string{sv}, Fn: Var{"snap"}},
		&Call{Names: []string{ok, a, b}, Fn: Var{"coresume"}, Args: args},
		&Call{Fn: Var{"snap"}, Args: []Expr{Var{sv}}},
		&Call{Names: []string{st}, Fn: Var{"costatus"}, Args: []Expr{Var{co.name}}},
		g.emitVars("rs", ok, a, b, st),
	}
	return append(out, g.selfProbe(fc)...)
}

func (g *gen) wrapCall(fc *fctx, w string, sig *fnSig) []Stmt {
	g.cost(sig.cost)
	na := g.yieldArity()
	args := []Expr{Var{w}}
	for i := 0; i < na; i++ {
		args = append(args, g.numExpr(0))
	}
	ok, a, b := g.fresh("ok"), g.fresh("wa"), g.fresh("wb")
	g.declare(&varInfo{name: ok, k: kBool, fnLevel: fc.level})
	out := []Stmt{&Call{Names: []string{ok, a, b}, Fn: Var{"pcall"}, Args: args}, g.emitVars("wr", ok, a, b)}
	return append(out, g.selfProbe(fc)...)
}

// selfProbe: inside a coroutine body that remembered itself, check after a nested resume that the running
// coroutine is still this one and that its own status is "running".
func (g *gen) selfProbe(fc *fctx) []Stmt {
	if !fc.canYield || !g.feat("selfstatus") {
		return nil
	}
	selfs := g.visible(func(v *varInfo) bool { return v.k == kSelf && v.fnLevel == fc.level })
	if len(selfs) == 0 {
		return nil
	}
	me := selfs[0].name
	r, st := g.fresh("rn"), g.fresh("ss")
	g.use("self_probe_after_resume")
	return []Stmt{&Call{Names: []string{r}, Fn: Var{"corunning"}}, &Call{Names: []string{st}, Fn: Var{"costatus"}, Args: []Expr{Var{me}}},
		&Call{Fn: Var{"emit"}, Args: []Expr{Str{"me"}, Bin{"==", Var{r}, Var{me}}, Var{st}}}}
}

// Generate draws a program from the tape.
func Generate(t Tape, p *Profile) *Program {
	g := &gen{t: t, p: p, prog: &Program{Features: map[string]int{}}, mult: 1, on: map[string]bool{}}
	// swarm: each allowed feature is enabled for this run with probability 3/4
	for _, f := range allFeatures {
		on := t.Choose(4) != 0
		if p.Allow[f] && !p.Disabled[f] && on {
			g.on[f] = true
		}
	}
	g.push()
	fc := &fctx{}
	var body []Stmt
	// always-present variables, so that expressions never have to be constant-only
	g.declare(&varInfo{name: "v0", k: kNum})
	g.declare(&varInfo{name: "s0", k: kStr})
	body = append(body, &Local{Names: []string{"v0", "s0"}, Exprs: []Expr{Num{float64(t.Choose(5))}, Str{"s"}}})
	g.nloc = 60 // prelude and padding locals of the chunk
	// Top-level statements: each is (continue?, sub-seed) on the main tape and is generated from a private
	// stream seeded by the sub-seed, so that the shrinker can drop a whole statement by deleting two draws
	// and truncate the program by zeroing one.
	for i := 0; i < p.MaxStmts+3 && !g.tight(); i++ {
		if i >= 1 && t.Choose(p.MaxStmts/2+2) == 0 {
			break
		}
		sub := &subStream{s: uint64(t.Choose(1<<30))*0x9e3779b97f4a7c15 + 1}
		g.t = sub
		ss := g.stmt(fc)
		g.t = t
		g.nloc += countLocals(ss)
		body = append(body, ss...)
	}
	if g.feat("repetition") && t.Choose(10) == 0 {
		body = append(body, g.sRepetition(fc)...)
	}
	if p.Epilogue {
		body = append(body, g.epilogue(fc)...)
	}
	g.pop()
	g.prog.Body = body
	g.prog.NStmts = g.stmts
	return g.prog
}

// sRepetition: one mechanism repeated often enough to cross internal thresholds (segments of 8 call frames, pages,
// pools, growth steps of the registry, the 256 boundary of byte-sized fields): many closures over loop variables,
// many failed protected calls of the same function, many coroutines created and finished, many coroutines alive at
// once, recursion with a captured local per level. Programs with such a block are usually too long for the fault
// sweep; they are compared fault-free against the model.
func (g *gen) sRepetition(fc *fctx) []Stmt {
	n := []int{33, 70, 130, 260, 520}[g.t.Choose(5)]
	N := Num{float64(n)}
	kind := g.t.Choose(6)
	g.use([]string{"repeat_closures", "repeat_failed_pcalls", "repeat_coroutines", "repeat_live_coroutines", "repeat_recursion_with_captures", "repeat_resume_chain"}[kind])
	nf := func(params []string, body ...Stmt) Func {
		g.prog.NFuncs++
		return Func{&FuncDef{ID: g.prog.NFuncs, Params: params, Body: body}}
	}
	i, s := g.fresh("i"), g.fresh("rs")
	var out []Stmt
	switch kind {
	case 0:
		fs, v, f, r, a, b := g.fresh("fs"), g.fresh("v"), g.fresh("f"), g.fresh("r"), g.fresh("ra"), g.fresh("rb")
		out = []Stmt{
			&Local{Names: []string{fs}, Exprs: []Expr{TableCons{}}},
			&NumFor{Var: i, From: Num{1}, To: N, Body: []Stmt{
				&Local{Names: []string{v}, Exprs: []Expr{Var{i}}},
				&Local{Names: []string{f}, Exprs: []Expr{nf(nil, &Assign{Targets: []Expr{Var{v}}, Exprs: []Expr{Bin{"+", Var{v}, Num{1}}}}, &Return{Exprs: []Expr{Var{v}}})}},
				&Assign{Targets: []Expr{Index{Var{fs}, Var{i}}}, Exprs: []Expr{Var{f}}}}},
			&Local{Names: []string{s}, Exprs: []Expr{Num{0}}},
			&NumFor{Var: i, From: Num{1}, To: N, Body: []Stmt{
				&Call{Names: []string{r}, Fn: Index{Var{fs}, Var{i}}},
				&Assign{Targets: []Expr{Var{s}}, Exprs: []Expr{Bin{"+", Var{s}, Var{r}}}}}},
			&Call{Names: []string{a}, Fn: Index{Var{fs}, Num{1}}},
			&Call{Names: []string{b}, Fn: Index{Var{fs}, N}},
			&Call{Fn: Var{"emit"}, Args: []Expr{Str{"rep"}, Var{s}, Var{a}, Var{b}}},
		}
	case 1:
		if n == 520 && g.t.Choose(2) == 0 {
			N = Num{900} // 450 contained errors on one state
		}
		c, k, bd, p, x, gf, r, ok, e := g.fresh("c"), g.fresh("k"), g.fresh("bd"), g.fresh("p"), g.fresh("x"), g.fresh("g"), g.fresh("r"), g.fresh("ok"), g.fresh("e")
		out = []Stmt{
			&Local{Names: []string{c, k}, Exprs: []Expr{Num{0}, Num{0}}},
			&Local{Names: []string{bd}, Exprs: []Expr{nf([]string{p},
				&Local{Names: []string{x}, Exprs: []Expr{Var{p}}},
				&Local{Names: []string{gf}, Exprs: []Expr{nf(nil, &Assign{Targets: []Expr{Var{x}}, Exprs: []Expr{Bin{"+", Var{x}, Num{1}}}}, &Return{Exprs: []Expr{Var{x}}})}},
				&Assign{Targets: []Expr{Var{k}}, Exprs: []Expr{Bin{"+", Var{k}, Num{1}}}},
				&If{Conds: []Expr{Bin{">=", Var{k}, Num{2}}}, Blocks: [][]Stmt{{
					&Assign{Targets: []Expr{Var{k}}, Exprs: []Expr{Num{0}}},
					&Call{Fn: Var{"error"}, Args: []Expr{Var{p}}}}}},
				&Call{Names: []string{r}, Fn: Var{gf}},
				&Assign{Targets: []Expr{Var{c}}, Exprs: []Expr{Bin{"+", Var{c}, Var{r}}}})}},
			&NumFor{Var: i, From: Num{1}, To: N, Body: []Stmt{
				&Call{Names: []string{ok, e}, Fn: Var{"pcall"}, Args: []Expr{Var{bd}, Var{i}}},
				&If{Conds: []Expr{Bin{"==", Var{ok}, False{}}}, Blocks: [][]Stmt{{
					&Assign{Targets: []Expr{Var{c}}, Exprs: []Expr{Bin{"+", Var{c}, Var{e}}}}}}}}},
			&Call{Fn: Var{"emit"}, Args: []Expr{Str{"rep"}, Var{c}, Var{k}}},
		}
	case 2:
		cb, a, b, co, x, y := g.fresh("cb"), g.fresh("a"), g.fresh("b"), g.fresh("co"), g.fresh("x"), g.fresh("y")
		out = []Stmt{
			&Local{Names: []string{s}, Exprs: []Expr{Num{0}}},
			&Local{Names: []string{cb}, Exprs: []Expr{nf([]string{a},
				&Call{Names: []string{b}, Fn: Var{"coyield"}, Args: []Expr{Bin{"+", Var{a}, Num{1}}}},
				&Return{Exprs: []Expr{Bin{"*", Var{b}, Num{2}}}})}},
			&NumFor{Var: i, From: Num{1}, To: N, Body: []Stmt{
				&Call{Names: []string{co}, Fn: Var{"cowrap"}, Args: []Expr{Var{cb}}},
				&Call{Names: []string{x}, Fn: Var{co}, Args: []Expr{Var{i}}},
				&Call{Names: []string{y}, Fn: Var{co}, Args: []Expr{Var{x}}},
				&Assign{Targets: []Expr{Var{s}}, Exprs: []Expr{Bin{"+", Bin{"+", Var{s}, Var{x}}, Var{y}}}}}},
			&Call{Fn: Var{"emit"}, Args: []Expr{Str{"rep"}, Var{s}}},
		}
	case 3:
		if n > 260 {
			N = Num{260}
		}
		cb, a, b, c2, co, cos, ok, v, st := g.fresh("cb"), g.fresh("a"), g.fresh("b"), g.fresh("c"), g.fresh("co"), g.fresh("cos"), g.fresh("ok"), g.fresh("v"), g.fresh("st")
		out = []Stmt{
			&Local{Names: []string{s}, Exprs: []Expr{Num{0}}},
			&Local{Names: []string{cos}, Exprs: []Expr{TableCons{}}},
			&Local{Names: []string{cb}, Exprs: []Expr{nf([]string{a},
				&Call{Names: []string{b}, Fn: Var{"coyield"}, Args: []Expr{Bin{"+", Var{a}, Num{1}}}},
				&Call{Names: []string{c2}, Fn: Var{"coyield"}, Args: []Expr{Bin{"+", Var{a}, Var{b}}}},
				&Return{Exprs: []Expr{Bin{"+", Bin{"*", Var{a}, Num{1000}}, Var{c2}}}})}},
			&NumFor{Var: i, From: Num{1}, To: N, Body: []Stmt{
				&Call{Names: []string{co}, Fn: Var{"cocreate"}, Args: []Expr{Var{cb}}},
				&Call{Names: []string{ok, v}, Fn: Var{"coresume"}, Args: []Expr{Var{co}, Var{i}}},
				&Assign{Targets: []Expr{Index{Var{cos}, Var{i}}}, Exprs: []Expr{Var{co}}},
				&Assign{Targets: []Expr{Var{s}}, Exprs: []Expr{Bin{"+", Var{s}, Var{v}}}}}},
			&NumFor{Var: i, From: N, To: Num{1}, Step: Num{-1}, Body: []Stmt{
				&Call{Names: []string{ok, v}, Fn: Var{"coresume"}, Args: []Expr{Index{Var{cos}, Var{i}}, Num{5}}},
				&Assign{Targets: []Expr{Var{s}}, Exprs: []Expr{Bin{"+", Var{s}, Var{v}}}}}},
			&NumFor{Var: i, From: Num{1}, To: N, Body: []Stmt{
				&Call{Names: []string{ok, v}, Fn: Var{"coresume"}, Args: []Expr{Index{Var{cos}, Var{i}}, Num{7}}},
				&Assign{Targets: []Expr{Var{s}}, Exprs: []Expr{Bin{"+", Var{s}, Var{v}}}}}},
			&Call{Names: []string{st}, Fn: Var{"costatus"}, Args: []Expr{Index{Var{cos}, Num{1}}}},
			&Call{Fn: Var{"emit"}, Args: []Expr{Str{"rep"}, Var{s}, Var{st}}},
		}
	case 5:
		// coroutines nested by resume: each body resumes the next; the innermost asks for the status of the
		// outermost ("normal", however long the chain) and tries to resume it (refused)
		depth := []int{5, 40, 99, 100, 101, 102, 130}[g.t.Choose(7)]
		first, nest, d, co, bf, st, ok, e, r, ok2, v := g.fresh("first"), g.fresh("nest"), g.fresh("d"), g.fresh("co"), g.fresh("bf"), g.fresh("st"), g.fresh("ok"), g.fresh("e"), g.fresh("r"), g.fresh("ok"), g.fresh("v")
		inner := nf(nil,
			&If{Conds: []Expr{Bin{"<=", Var{d}, Num{0}}}, Blocks: [][]Stmt{{
				&Call{Names: []string{st}, Fn: Var{"costatus"}, Args: []Expr{Var{first}}},
				&Call{Names: []string{ok, e}, Fn: Var{"pcall"}, Args: []Expr{Var{"coresume"}, Var{first}, Num{1}}},
				&Call{Fn: Var{"emit"}, Args: []Expr{Str{"chain"}, Var{st}, Bin{"and", Var{ok}, Var{e}}}},
				&Return{Exprs: []Expr{Num{0}}}}}},
			&Call{Names: []string{r}, Fn: Var{nest}, Args: []Expr{Bin{"-", Var{d}, Num{1}}}},
			&Return{Exprs: []Expr{Bin{"+", Var{r}, Num{1}}}})
		out = []Stmt{
			&Local{Names: []string{first}, Exprs: []Expr{Nil{}}},
			&Local{Names: []string{nest}, Rec: true, Exprs: []Expr{nf([]string{d},
				&Local{Names: []string{bf}, Exprs: []Expr{inner}},
				&Call{Names: []string{co}, Fn: Var{"cocreate"}, Args: []Expr{Var{bf}}},
				&If{Conds: []Expr{Bin{"==", Var{first}, Nil{}}}, Blocks: [][]Stmt{{&Assign{Targets: []Expr{Var{first}}, Exprs: []Expr{Var{co}}}}}},
				&Call{Names: []string{ok2, v}, Fn: Var{"coresume"}, Args: []Expr{Var{co}}},
				&Return{Exprs: []Expr{Var{v}}})}},
			&Call{Names: []string{s}, Fn: Var{nest}, Args: []Expr{Num{float64(depth)}}},
			&Call{Fn: Var{"emit"}, Args: []Expr{Str{"rep"}, Var{s}}},
		}
	default:
		depth := []int{7, 9, 17, 33, 40}[g.t.Choose(5)]
		rec, d, v, f, r, q := g.fresh("rec"), g.fresh("d"), g.fresh("v"), g.fresh("f"), g.fresh("r"), g.fresh("q")
		out = []Stmt{
			&Local{Names: []string{rec}, Rec: true, Exprs: []Expr{nf([]string{d},
				&Local{Names: []string{v}, Exprs: []Expr{Var{d}}},
				&Local{Names: []string{f}, Exprs: []Expr{nf(nil, &Assign{Targets: []Expr{Var{v}}, Exprs: []Expr{Bin{"+", Var{v}, Num{1}}}}, &Return{Exprs: []Expr{Var{v}}})}},
				&If{Conds: []Expr{Bin{"<=", Var{d}, Num{0}}}, Blocks: [][]Stmt{{&ReturnCall{Fn: Var{f}}}}},
				&Call{Names: []string{r}, Fn: Var{rec}, Args: []Expr{Bin{"-", Var{d}, Num{1}}}},
				&Call{Names: []string{q}, Fn: Var{f}},
				&Return{Exprs: []Expr{Bin{"+", Var{r}, Bin{"*", Var{q}, Var{v}}}}})}},
			&Call{Names: []string{s}, Fn: Var{rec}, Args: []Expr{Num{float64(depth)}}},
			&Call{Fn: Var{"emit"}, Args: []Expr{Str{"rep"}, Var{s}}},
		}
	}
	return []Stmt{&Do{Body: out}}
}

// epilogue probes everything that is still visible: values of simple
// variables, every escaped closure (after reusing registers), every coroutine.
func (g *gen) epilogue(fc *fctx) []Stmt {
	var out []Stmt
	if g.feat("clobber") {
		out = append(out, g.sClobber(fc)...)
	}
	vs := g.visible(func(v *varInfo) bool { return v.k == kNum || v.k == kStr || v.k == kBool || v.k == kAny })
	for i := 0; i < len(vs); i += 4 {
		j := i + 4
		if j > len(vs) {
			j = len(vs)
		}
		var names []string
		for _, v := range vs[i:j] {
			names = append(names, v.name)
		}
		out = append(out, g.emitVars("fin", names...))
		if i >= 16 {
			break
		}
	}
	for _, t := range g.visible(func(v *varInfo) bool { return v.k == kTab }) {
		out = append(out, &Call{Fn: Var{"emit"}, Args: []Expr{Str{"fint"}, Index{Var{t.name}, Str{"x"}}, Index{Var{t.name}, Num{1}}, Un{"#", Var{t.name}}}})
	}
	fns := g.visible(func(v *varInfo) bool { return v.k == kFn && v.sig != nil && !v.sig.yields })
	if len(fns) > 8 {
		fns = fns[:8]
	}
	for _, f := range fns {
		ok, a, b := g.fresh("ok"), g.fresh("fa"), g.fresh("fb")
		args := []Expr{Var{f.name}}
		for i := 0; i < f.sig.nparams; i++ {
			args = append(args, Num{float64(i + 1)})
		}
		out = append(out, &Call{Names: []string{ok, a, b}, Fn: Var{"pcall"}, Args: args}, g.emitVars("finf", ok, a, b))
	}
	cos := g.visible(func(v *varInfo) bool { return v.k == kCo && v.coOwner == 0 })
	if len(cos) > 4 {
		cos = cos[:4]
	}
	for _, c := range cos {
		out = append(out, g.resumeStmts(fc, c)...)
	}
	return out
}

// GenerateBodies draws a program that defines n global coroutine body
// functions B1..Bn (and whatever shared state they capture); a host-side
// scheduler then drives coroutines over them.
func GenerateBodies(t Tape, p *Profile, n int) (*Program, []string) {
	g := &gen{t: t, p: p, prog: &Program{Features: map[string]int{}}, mult: 1, on: map[string]bool{}}
	for _, f := range allFeatures {
		on := t.Choose(4) != 0
		if p.Allow[f] && !p.Disabled[f] && on {
			g.on[f] = true
		}
	}
	g.on["coroutine"] = true
	g.push()
	fc := &fctx{}
	var body []Stmt
	g.declare(&varInfo{name: "v0", k: kNum})
	g.declare(&varInfo{name: "s0", k: kStr})
	body = append(body, &Local{Names: []string{"v0", "s0"}, Exprs: []Expr{Num{float64(t.Choose(5))}, Str{"s"}}})
	for i := 0; i < t.Choose(4); i++ {
		body = append(body, g.sDecl(fc)...)
	}
	var names []string
	for i := 0; i < n; i++ {
		if t.Choose(6) == 0 {
			// a vararg body that hands everything it is given on: yields all its arguments, then yields them again
			// behind one more value, then returns whatever the last resume gives it (names BVn: the scheduler gives
			// such bodies long argument lists)
			g.use("vararg_body_many_values")
			c, l, a, b := g.fresh("c"), g.fresh("l"), g.fresh("a"), g.fresh("b")
			g.prog.NFuncs++
			var fd *FuncDef
			if t.Choose(2) == 0 {
				fd = &FuncDef{ID: g.prog.NFuncs, IsVararg: true, Body: []Stmt{
					&Call{Names: []string{c}, Fn: Var{"select"}, Args: []Expr{Str{"#"}, Vararg{}}},
					&Call{Names: []string{l}, Fn: Var{"select"}, Args: []Expr{Var{c}, Vararg{}}},
					&Call{Fn: Var{"emit"}, Args: []Expr{Str{"va"}, Var{c}, Var{l}}},
					&Call{Names: []string{a, b}, Fn: Var{"coyield"}, Args: []Expr{Vararg{}}},
					&Call{Fn: Var{"emit"}, Args: []Expr{Str{"va2"}, Var{a}, Var{b}}},
					&ReturnCall{Fn: Var{"coyield"}, Args: []Expr{Var{a}, Vararg{}}}}}
			} else {
				// named parameters in front of the varargs: the first resume may bring fewer values than there are names
				p1, p2, p3 := g.fresh("p"), g.fresh("p"), g.fresh("p")
				fd = &FuncDef{ID: g.prog.NFuncs, IsVararg: true, Params: []string{p1, p2, p3}, Body: []Stmt{
					&Call{Names: []string{c}, Fn: Var{"select"}, Args: []Expr{Str{"#"}, Vararg{}}},
					&Call{Fn: Var{"emit"}, Args: []Expr{Str{"vn"}, Var{p1}, Var{p2}, Var{p3}, Var{c}}},
					&Call{Names: []string{a, b}, Fn: Var{"coyield"}, Args: []Expr{Var{p3}, Var{p2}, Var{p1}, Vararg{}}},
					&Call{Fn: Var{"emit"}, Args: []Expr{Str{"vn2"}, Var{a}, Var{b}, Var{p1}, Var{p3}}},
					&ReturnCall{Fn: Var{"coyield"}, Args: []Expr{Var{a}, Vararg{}}}}}
			}
			ln := g.fresh("vb")
			gn := fmt.Sprintf("BV%d", i+1)
			body = append(body, &Local{Names: []string{ln}, Exprs: []Expr{Func{fd}}}, &Assign{Targets: []Expr{Var{gn}}, Exprs: []Expr{Var{ln}}})
			names = append(names, gn)
			continue
		}
		name, _, st := g.coBody(fc)
		body = append(body, st...)
		gn := fmt.Sprintf("B%d", i+1)
		body = append(body, &Assign{Targets: []Expr{Var{gn}}, Exprs: []Expr{Var{name}}})
		names = append(names, gn)
	}
	g.pop()
	g.prog.Body = body
	g.prog.NStmts = g.stmts
	return g.prog, names
}

// subStream is a private SplitMix64 choice stream seeded from one draw of the main tape.
type subStream struct{ s uint64 }

func (r *subStream) Choose(n int) int {
	if n <= 1 {
		return 0
	}
	r.s += 0x9e3779b97f4a7c15
	z := r.s
	z = (z ^ (z >> 30)) * 0xbf58476d1ce4e5b9
	z = (z ^ (z >> 27)) * 0x94d049bb133111eb
	z ^= z >> 31
	return int(z % uint64(n))
}

// sNameForms: three places where a name is bound or looked up in a less common way.
//   - `function name() ... end` as a statement, where name is a local of the same function, of a function one to
//     three levels out, or a global;
//   - `local a, b = function ... a ... end, a`: the names declared by the statement are not yet in scope on its
//     right-hand side, so `a` there is the variable of the same name declared earlier;
//   - debug.getupvalue / debug.setupvalue applied, from the main thread, to a closure whose variable lives in a
//     suspended coroutine.
func (g *gen) sNameForms(fc *fctx) []Stmt {
	g.cost(40)
	def := func(name string, body []Stmt, params ...string) *Local {
		g.prog.NFuncs++
		return &Local{Names: []string{name}, Exprs: []Expr{Func{&FuncDef{ID: g.prog.NFuncs, Params: params, Body: body}}}}
	}
	form := g.ch(3)
	if form == 2 && !g.feat("coroutine") {
		form = g.ch(2)
	}
	switch form {
	case 0:
		h, t1, t2, r := g.fresh("h"), g.fresh("t"), g.fresh("t"), g.fresh("r")
		levels := g.ch(5) // 0-3: the local is that many functions out; 4: there is no local, the name is a global
		g.use("function_statement_level_" + map[int]string{0: "0", 1: "1", 2: "2", 3: "3", 4: "global"}[levels])
		g.prog.NFuncs++
		k := float64(7 + g.ch(20))
		inner := []Stmt{&FuncStmt{Name: h, F: &FuncDef{ID: g.prog.NFuncs, Body: []Stmt{&Return{Exprs: []Expr{Num{k}}}}}}}
		n := levels
		if n == 4 {
			n = 1 + g.ch(2)
		}
		for i := 0; i < n; i++ {
			f, x := g.fresh("F"), g.fresh("x")
			body := append([]Stmt{}, inner...)
			if i == 0 {
				body = append(body, &Return{Exprs: []Expr{Num{0}}})
			}
			inner = []Stmt{def(f, body), &Call{Names: []string{x}, Fn: Var{f}}}
			if i < n-1 {
				inner = append(inner, &Return{Exprs: []Expr{Var{x}}})
			}
		}
		var blk []Stmt
		if levels != 4 {
			blk = append(blk, &Local{Names: []string{h}, Exprs: []Expr{Num{1}}})
		}
		blk = append(blk, inner...)
		blk = append(blk, &Call{Names: []string{t1}, Fn: Var{"type"}, Args: []Expr{Var{h}}})
		if g.ch(2) == 0 {
			blk = append(blk, &If{Conds: []Expr{Bin{"==", Var{t1}, Str{"function"}}}, Blocks: [][]Stmt{{&Call{Targets: []Expr{Var{t1}}, Fn: Var{h}}}}})
		}
		blk = append(blk, &Call{Fn: Var{"emit"}, Args: []Expr{Str{"fs"}, Var{t1}}})
		out := []Stmt{&Do{Body: blk},
			// outside the block the name is a global
			&Call{Names: []string{t2}, Fn: Var{"type"}, Args: []Expr{Var{h}}},
			&Call{Fn: Var{"emit"}, Args: []Expr{Str{"fs2"}, Var{t2}}},
			&Assign{Targets: []Expr{Var{h}}, Exprs: []Expr{Nil{}}}}
		_ = r
		return []Stmt{&Do{Body: out}}
	case 1:
		g.use("local_list_with_function_first")
		a, b, c, r1, r2 := g.fresh("a"), g.fresh("b"), g.fresh("c"), g.fresh("r"), g.fresh("r")
		k := float64(3 + g.ch(30))
		g.prog.NFuncs++
		// the function reads (and writes) the outer a, and so does the second initialiser
		fd := &FuncDef{ID: g.prog.NFuncs, Body: []Stmt{
			&Assign{Targets: []Expr{Var{a}}, Exprs: []Expr{Bin{"+", Var{a}, Num{1}}}}, &Return{Exprs: []Expr{Var{a}}}}}
		names := []string{a, b}
		rest := []Expr{Bin{"+", Var{a}, Num{100}}}
		if g.ch(2) == 0 {
			names = append(names, c)
			rest = append(rest, Var{a})
		}
		single := g.ch(3) == 0
		if single {
			// `local a = function ... a ... end`: one name, one function - the name is still not in scope inside it
			g.use("local_name_is_function_mentioning_the_name")
			names, rest = []string{a}, nil
		}
		probe := []Stmt{
			&Call{Names: []string{r1}, Fn: Var{a}},
			&Call{Names: []string{r2}, Fn: Var{a}},
			&Call{Fn: Var{"emit"}, Args: []Expr{Str{"llf"}, Var{r1}, Var{r2}, Var{b}}},
		}
		if single {
			probe[2] = &Call{Fn: Var{"emit"}, Args: []Expr{Str{"llf"}, Var{r1}, Var{r2}}}
		}
		inner := append([]Stmt{&Local{Names: names, Exprs: append([]Expr{Func{fd}}, rest...)}}, probe...)
		var out []Stmt
		out = append(out, &Local{Names: []string{a}, Exprs: []Expr{Num{k}}})
		switch g.ch(3) {
		case 0: // same block: the new a shadows the old one from the next statement on
			out = append(out, inner...)
		case 1: // inner block: the outer a is visible again afterwards
			out = append(out, &Do{Body: inner}, &Call{Fn: Var{"emit"}, Args: []Expr{Str{"llf2"}, Var{a}}})
		default: // inside a function: the outer a is an upvalue there
			f, x := g.fresh("F"), g.fresh("x")
			body := append(append([]Stmt{}, inner...), &Return{Exprs: []Expr{Num{0}}})
			out = append(out, def(f, body), &Call{Names: []string{x}, Fn: Var{f}}, &Call{Fn: Var{"emit"}, Args: []Expr{Str{"llf2"}, Var{a}}})
		}
		return []Stmt{&Do{Body: out}}
	default:
		g.use("debug_upvalue_across_threads")
		co, v, cl, body := g.fresh("co"), g.fresh("v"), g.fresh("cl"), g.fresh("B")
		ok, got, n1, v1, n2, ok2, r2, junk := g.fresh("ok"), g.fresh("cl"), g.fresh("n"), g.fresh("v"), g.fresh("n"), g.fresh("ok"), g.fresh("r"), g.fresh("j")
		k := float64(10 + g.ch(50))
		g.prog.NFuncs++
		clDef := &FuncDef{ID: g.prog.NFuncs, Body: []Stmt{
			&Assign{Targets: []Expr{Var{v}}, Exprs: []Expr{Bin{"+", Var{v}, Num{1}}}}, &Return{Exprs: []Expr{Var{v}}}}}
		var cb []Stmt
		// some locals first, so that the variable's register index differs from anything at that index in the main thread
		for i, n := 0, g.ch(4); i < n; i++ {
			cb = append(cb, &Local{Names: []string{g.fresh("p")}, Exprs: []Expr{Num{float64(900 + i)}}})
		}
		y := g.fresh("y")
		cb = append(cb,
			&Local{Names: []string{v}, Exprs: []Expr{Num{k}}},
			&Local{Names: []string{cl}, Exprs: []Expr{Func{clDef}}},
			&Call{Names: []string{y}, Fn: Var{"coyield"}, Args: []Expr{Var{cl}}},
			&Call{Fn: Var{"emit"}, Args: []Expr{Str{"dbg-co"}, Var{v}}},
			&Return{Exprs: []Expr{Var{v}}})
		out := []Stmt{
			def(body, cb),
			&Call{Names: []string{co}, Fn: Var{"cocreate"}, Args: []Expr{Var{body}}},
			&Call{Names: []string{ok, got}, Fn: Var{"coresume"}, Args: []Expr{Var{co}}},
			&Local{Names: []string{junk}, Exprs: []Expr{Num{4242}}},
			&Call{Names: []string{n1, v1}, Fn: Var{"dgetup"}, Args: []Expr{Var{got}, Num{1}}},
			&Call{Names: []string{n2}, Fn: Var{"dsetup"}, Args: []Expr{Var{got}, Num{1}, Num{k + 500}}},
			&Call{Fn: Var{"emit"}, Args: []Expr{Str{"dbg"}, Var{n1}, Var{v1}, Var{n2}, Var{junk}}},
			&Call{Names: []string{ok2, r2}, Fn: Var{"coresume"}, Args: []Expr{Var{co}}},
			&Call{Fn: Var{"emit"}, Args: []Expr{Str{"dbg2"}, Var{ok2}, Var{r2}, Var{junk}}},
		}
		if g.ch(2) == 0 {
			// once more after the coroutine has ended: the variable is closed now
			n3, v3 := g.fresh("n"), g.fresh("v")
			out = append(out,
				&Call{Names: []string{n3}, Fn: Var{"dsetup"}, Args: []Expr{Var{got}, Num{1}, Num{k + 700}}},
				&Call{Names: []string{n3 + "b", v3}, Fn: Var{"dgetup"}, Args: []Expr{Var{got}, Num{1}}},
				&Call{Fn: Var{"emit"}, Args: []Expr{Str{"dbg3"}, Var{n3}, Var{v3}}})
		}
		return []Stmt{&Do{Body: out}}
	}
}

// sSiblings: a coroutine A creates two coroutines B and C, starts both (they yield) and ends - by an error or by a
// return; then B ends - by an error or by a return - while C lives on and is resumed twice more. The end of a
// creator or of a sibling, however it comes about, is nobody else's end.
func (g *gen) sSiblings(fc *fctx) []Stmt {
	g.use("siblings_outlive_creator")
	g.cost(80)
	gb, gc := g.fresh("GB"), g.fresh("GC")
	fa, fb, fcn, a, p := g.fresh("fa"), g.fresh("fb"), g.fresh("fc"), g.fresh("ca"), g.fresh("p")
	nf := func(params []string, body ...Stmt) Func {
		g.prog.NFuncs++
		return Func{&FuncDef{ID: g.prog.NFuncs, Params: params, Body: body}}
	}
	emit := func(tag string, names ...string) Stmt { return g.emitVars(tag, names...) }
	end := func(tag string) Stmt {
		if g.ch(2) == 0 {
			return &Call{Fn: Var{"error"}, Args: []Expr{Str{tag}, Num{0}}}
		}
		return &Return{Exprs: []Expr{Str{tag}}}
	}
	y1, y2, y3 := g.fresh("y"), g.fresh("y"), g.fresh("y")
	bBody := nf([]string{p},
		&Call{Names: []string{y1}, Fn: Var{"coyield"}, Args: []Expr{Bin{"+", Var{p}, Num{1}}}}, emit("sb", y1), end("b-ends"))
	cBody := nf([]string{p},
		&Call{Names: []string{y2}, Fn: Var{"coyield"}, Args: []Expr{Bin{"+", Var{p}, Num{2}}}}, emit("sc1", y2),
		&Call{Names: []string{y3}, Fn: Var{"coyield"}, Args: []Expr{Bin{"+", Var{y2}, Num{1}}}}, emit("sc2", y3),
		&Return{Exprs: []Expr{Bin{"+", Var{y3}, Num{1}}}})
	ok1, r1, ok2, r2 := g.fresh("ok"), g.fresh("r"), g.fresh("ok"), g.fresh("r")
	aStmts := []Stmt{
		&Local{Names: []string{fb}, Exprs: []Expr{bBody}}, &Local{Names: []string{fcn}, Exprs: []Expr{cBody}},
		&Call{Targets: []Expr{Var{gb}}, Fn: Var{"cocreate"}, Args: []Expr{Var{fb}}},
		&Call{Targets: []Expr{Var{gc}}, Fn: Var{"cocreate"}, Args: []Expr{Var{fcn}}},
		&Call{Names: []string{ok1, r1}, Fn: Var{"coresume"}, Args: []Expr{Var{gb}, Num{float64(g.ch(9))}}},
		&Call{Names: []string{ok2, r2}, Fn: Var{"coresume"}, Args: []Expr{Var{gc}, Num{float64(g.ch(9))}}},
		emit("sa", ok1, r1, ok2, r2), end("a-ends")}
	m1, n1, m2, n2, m3, n3, m4, n4, s1, s2, s3 := g.fresh("ok"), g.fresh("r"), g.fresh("ok"), g.fresh("r"), g.fresh("ok"), g.fresh("r"), g.fresh("ok"), g.fresh("r"), g.fresh("st"), g.fresh("st"), g.fresh("st")
	out := []Stmt{&Local{Names: []string{fa}, Exprs: []Expr{nf(nil, aStmts...)}},
		&Call{Names: []string{a}, Fn: Var{"cocreate"}, Args: []Expr{Var{fa}}},
		&Call{Names: []string{m1, n1}, Fn: Var{"coresume"}, Args: []Expr{Var{a}}}, emit("s1", m1, n1),
		&Call{Names: []string{m2, n2}, Fn: Var{"coresume"}, Args: []Expr{Var{gb}, Num{10}}}, emit("s2", m2, n2),
		&Call{Names: []string{m3, n3}, Fn: Var{"coresume"}, Args: []Expr{Var{gc}, Num{20}}}, emit("s3", m3, n3),
		&Call{Names: []string{m4, n4}, Fn: Var{"coresume"}, Args: []Expr{Var{gc}, Num{30}}},
		&Call{Names: []string{s1}, Fn: Var{"costatus"}, Args: []Expr{Var{a}}},
		&Call{Names: []string{s2}, Fn: Var{"costatus"}, Args: []Expr{Var{gb}}},
		&Call{Names: []string{s3}, Fn: Var{"costatus"}, Args: []Expr{Var{gc}}},
		emit("s4", m4, n4, s1, s2, s3),
		&Assign{Targets: []Expr{Var{gb}, Var{gc}}, Exprs: []Expr{Nil{}, Nil{}}}}
	return []Stmt{&Do{Body: out}}
}
