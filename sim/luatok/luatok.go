// Package luatok is a small, independent Lua 5.1 tokenizer used only to
// re-render source texts in a different lexical layout. It keeps every token's
// text verbatim. It shares no code with gopher-lua's scanner.
package luatok

type Kind int

const (
	Name Kind = iota
	Number
	String     // short string, quotes included
	LongString // [[...]] / [=[...]=]
	Punct
)

type Token struct {
	Kind Kind
	Text string
}

func isAlpha(c byte) bool {
	return c == '_' || (c >= 'a' && c <= 'z') || (c >= 'A' && c <= 'Z')
}
func isDigit(c byte) bool { return c >= '0' && c <= '9' }
func isSpace(c byte) bool {
	return c == ' ' || c == '\t' || c == '\n' || c == '\r' || c == '\f' || c == '\v'
}

// longBracket returns the level of a long bracket opening at s[i] ('['), or -1.
func longBracket(s string, i int) int {
	j := i + 1
	lv := 0
	for j < len(s) && s[j] == '=' {
		lv++
		j++
	}
	if j < len(s) && s[j] == '[' {
		return lv
	}
	return -1
}

// closeLong returns the index just after the closing bracket of the given level, or -1.
func closeLong(s string, from, lv int) int {
	for i := from; i < len(s); i++ {
		if s[i] == ']' {
			j := i + 1
			n := 0
			for j < len(s) && s[j] == '=' {
				n++
				j++
			}
			if n == lv && j < len(s) && s[j] == ']' {
				return j + 1
			}
		}
	}
	return -1
}

// Tokenize splits src into tokens, dropping blanks and comments. ok is false
// when the text is outside what this tokenizer understands (then the caller
// must not use the result); it is conservative and only needs to be right on
// texts the real front end accepts.
func Tokenize(src string) (toks []Token, ok bool) {
	i := 0
	n := len(src)
	for i < n {
		c := src[i]
		switch {
		case isSpace(c):
			i++
		case c == '-' && i+1 < n && src[i+1] == '-':
			// comment
			i += 2
			if i < n && src[i] == '[' {
				if lv := longBracket(src, i); lv >= 0 {
					e := closeLong(src, i+2+lv, lv)
					if e < 0 {
						return nil, false
					}
					i = e
					continue
				}
			}
			for i < n && src[i] != '\n' && src[i] != '\r' {
				i++
			}
		case isAlpha(c):
			j := i
			for j < n && (isAlpha(src[j]) || isDigit(src[j])) {
				j++
			}
			toks = append(toks, Token{Name, src[i:j]})
			i = j
		case isDigit(c) || (c == '.' && i+1 < n && isDigit(src[i+1])):
			j := i
			if c == '0' && j+1 < n && (src[j+1] == 'x' || src[j+1] == 'X') {
				j += 2
				for j < n && (isDigit(src[j]) || (src[j] >= 'a' && src[j] <= 'f') || (src[j] >= 'A' && src[j] <= 'F')) {
					j++
				}
			} else {
				for j < n && (isDigit(src[j]) || src[j] == '.') {
					j++
				}
				if j < n && (src[j] == 'e' || src[j] == 'E') {
					j++
					if j < n && (src[j] == '+' || src[j] == '-') {
						j++
					}
					for j < n && isDigit(src[j]) {
						j++
					}
				}
			}
			if j < n && (isAlpha(src[j])) {
				return nil, false // malformed number; leave such texts alone
			}
			toks = append(toks, Token{Number, src[i:j]})
			i = j
		case c == '"' || c == '\'':
			j := i + 1
			for {
				if j >= n {
					return nil, false
				}
				if src[j] == '\\' {
					if j+1 < n && src[j+1] == '\r' && j+2 < n && src[j+2] == '\n' {
						j += 3
					} else {
						j += 2
					}
					continue
				}
				if src[j] == '\n' || src[j] == '\r' {
					return nil, false
				}
				if src[j] == c {
					j++
					break
				}
				j++
			}
			toks = append(toks, Token{String, src[i:j]})
			i = j
		case c == '[':
			if lv := longBracket(src, i); lv >= 0 {
				e := closeLong(src, i+2+lv, lv)
				if e < 0 {
					return nil, false
				}
				toks = append(toks, Token{LongString, src[i:e]})
				i = e
				continue
			}
			toks = append(toks, Token{Punct, "["})
			i++
		default:
			// operators, longest match
			three := ""
			if i+3 <= n {
				three = src[i : i+3]
			}
			two := ""
			if i+2 <= n {
				two = src[i : i+2]
			}
			switch {
			case three == "...":
				toks = append(toks, Token{Punct, three})
				i += 3
			case two == ".." || two == "==" || two == "~=" || two == "<=" || two == ">=" || two == "::":
				toks = append(toks, Token{Punct, two})
				i += 2
			default:
				switch c {
				case '+', '-', '*', '/', '%', '^', '#', '<', '>', '=', '(', ')', '{', '}', ']', ';', ':', ',', '.':
					toks = append(toks, Token{Punct, string(c)})
					i++
				default:
					return nil, false
				}
			}
		}
	}
	return toks, true
}

// Chooser is the subset of the choice tape the renderer needs.
type Chooser interface{ Choose(n int) int }

var seps = []string{" ", "\n", "\t", "\f", "\v", " \f\n", "  ", "\r\n", "\r", " \n ", "\n\n", "--\n", "-- c ]] [[ \"\n", "--[[ x ]]", "--[==[ ]] \n ]=] ]==]", "--[[\n]]", " --[=[ -- ]=] ", "\n\r", "--[ not long\n", "--[=x\r\n", "--[=\n", "--[==\r\n", "--[=\r", "--[\n", "--[===\n\n"}

func safePunct(t Token) bool {
	if t.Kind != Punct {
		return false
	}
	switch t.Text {
	case "(", ")", ",", ";", "{", "}", "+", "*", "/", "%", "^", "#":
		return true
	}
	return false
}

func sepHasNewlineOrLineComment(s string) bool {
	for i := 0; i < len(s); i++ {
		if s[i] == '\n' || s[i] == '\r' {
			return true
		}
	}
	return false
}

// Render joins tokens with tape-chosen separators: blanks, tabs, LF / CR / CRLF
// / LFCR line ends, line comments and long comments of several levels. No line
// break is ever placed directly before "(" (Lua 5.1 itself treats that as
// ambiguous syntax after a call prefix).
func Render(toks []Token, ch Chooser) string {
	out := make([]byte, 0, len(toks)*8)
	if ch.Choose(4) == 0 {
		out = append(out, seps[ch.Choose(len(seps))]...)
	}
	for i, t := range toks {
		out = append(out, t.Text...)
		if i+1 == len(toks) {
			break
		}
		nx := toks[i+1]
		// may the separator be omitted?
		if (safePunct(t) && nx.Kind != Number) || (safePunct(nx) && t.Kind != Number) {
			if ch.Choose(3) == 0 {
				continue
			}
		}
		k := 1
		if ch.Choose(6) == 0 {
			k = 2
		}
		for j := 0; j < k; j++ {
			var s string
			if ch.Choose(2) == 0 {
				s = " "
			} else {
				s = seps[ch.Choose(len(seps))]
			}
			if nx.Kind == Punct && nx.Text == "(" && sepHasNewlineOrLineComment(s) {
				s = " "
			}
			if len(out) > 0 && out[len(out)-1] == '-' && s[0] == '-' {
				out = append(out, ' ')
			}
			out = append(out, s...)
		}
	}
	switch ch.Choose(5) {
	case 0:
		out = append(out, '\n')
	case 1:
		out = append(out, "\r\n"...)
	case 2:
		out = append(out, " -- eof comment without newline"...)
	}
	return string(out)
}
