// luasim is the single binary behind /verif/check: supervisor and worker.
package main

import (
	"encoding/json"
	"fmt"
	"os"
	"runtime"
	"strconv"

	"luasim/core"
	"luasim/engines/cancelsweep"
	"luasim/engines/cosched"
	"luasim/engines/faultsweep"
	"luasim/engines/iohist"
	"luasim/engines/limitswarm"
	"luasim/engines/multistate"
	"luasim/engines/reqhist"
	"luasim/engines/streamload"
)

var specs = map[string]*core.PropertySpec{
	"C03": {Property: "C03", CrashViolation: true, Engine: faultsweep.New("C03", "closure"), QuickS: 75, ThoroughS: 1200, RunCapS: 300},
	"C05": {Property: "C05", CrashViolation: true, Engine: faultsweep.New("C05", "containment"), QuickS: 75, ThoroughS: 1800, RunCapS: 300},
	"C11": {Property: "C11", CrashViolation: true, Engine: func() core.Engine {
		return &combo{main: cancelsweep.New(), sub: map[string]core.Engine{"blocked": multistate.New("C11")()}}
	}, QuickS: 55, ThoroughS: 1500, RunCapS: 120, HangViolation: true, // a run that does not end is a script that could not be stopped
		Subs: []core.SubSpec{{Sub: "blocked", BudgetS: 8, Workers: 4}}},
	"C12": {Property: "C12", CrashViolation: true, Engine: limitswarm.New, QuickS: 60, ThoroughS: 1500, RunCapS: 300},
	"C06": {Property: "C06", CrashViolation: true, Engine: cosched.New, QuickS: 55, ThoroughS: 1200, RunCapS: 300,
		// 4 (quick) / 60 (thorough) body pairs x all 126 resume sequences of length <= 6 over two coroutines
		Subs: []core.SubSpec{{Sub: "exhaustive", BudgetS: 20, MaxRuns: 63, Workers: 8}, {Sub: "exhaustive", Thorough: true, BudgetS: 600, MaxRuns: 945, Workers: 8}}},
	"C19": {Property: "C19", CrashViolation: true, Engine: iohist.New, QuickS: 45, ThoroughS: 900, RunCapS: 120},
	"C20": {Property: "C20", CrashViolation: true, Engine: reqhist.New, QuickS: 40, ThoroughS: 600, RunCapS: 120, Subs: []core.SubSpec{{Sub: "short", BudgetS: 8, Workers: 8}}},
	"C13": {Property: "C13", CrashViolation: true, Engine: multistate.New("C13"), QuickS: 75, ThoroughS: 1500, RunCapS: 120, RaceFraction: 0.5},
	"C08": {Property: "C08", CrashViolation: true, Engine: streamload.New, QuickS: 45, ThoroughS: 900, RunCapS: 20, HangViolation: true},
}

// combo runs a different engine for a sub-mode of the same property.
type combo struct {
	main core.Engine
	sub  map[string]core.Engine
}

func (c *combo) Name() string         { return c.main.Name() }
func (c *combo) Properties() []string { return c.main.Properties() }
func (c *combo) Run(t *core.Tape, cfg *core.Config, st *core.Stats) *core.Violation {
	if e, ok := c.sub[cfg.Sub]; ok {
		return e.Run(t, cfg, st)
	}
	return c.main.Run(t, cfg, st)
}
func (c *combo) Level() string            { return c.main.(core.Describer).Level() }
func (c *combo) Rule() string             { return c.main.(core.Describer).Rule() }
func (c *combo) RealComponents() []string { return c.main.(core.Describer).RealComponents() }
func (c *combo) StubComponents() []string { return c.main.(core.Describer).StubComponents() }
func (c *combo) Assumptions() []string    { return c.main.(core.Describer).Assumptions() }

func usage() {
	fmt.Println("usage: luasim <PROPERTY> [--tier quick|thorough] [--replay FILE] [--budget SECONDS] [--workers N]")
	os.Exit(2)
}

func main() {
	if len(os.Args) >= 3 && os.Args[1] == "-worker" {
		var a core.WorkerArgs
		if err := json.Unmarshal([]byte(os.Args[2]), &a); err != nil {
			fmt.Fprintln(os.Stderr, "bad worker args:", err)
			os.Exit(2)
		}
		spec, ok := specs[a.Property]
		if !ok {
			fmt.Fprintln(os.Stderr, "unknown property", a.Property)
			os.Exit(2)
		}
		os.Exit(core.WorkerMain(spec.Engine(), &a))
	}
	if len(os.Args) < 2 {
		usage()
	}
	if os.Args[1] == "-debug-replay" {
		b, err := os.ReadFile(os.Args[2])
		if err != nil {
			panic(err)
		}
		var rf core.ReplayFile
		json.Unmarshal(b, &rf)
		prof := map[string]string{"C05": "containment", "C03": "closure", "C11": "cancel"}[rf.Property]
		if rf.Property == "C06" {
			if len(rf.Aux) > 0 && rf.Aux[0] < 0 {
				faultsweep.Debug("coroutine", rf.Tape[1:])
				faultsweep.DebugFault("coroutine", rf.Tape[1:], rf.Aux[1:])
			} else {
				cosched.DebugA(rf.Tape, rf.Aux)
			}
			return
		}
		if rf.Property == "C11" {
			faultsweep.Debug(prof, rf.Tape[2:])
			return
		}
		faultsweep.Debug(prof, rf.Tape)
		faultsweep.DebugFault(prof, rf.Tape, rf.Aux)
		return
	}
	if os.Args[1] == "-gen-corpus" {
		genCorpus()
		return
	}
	prop := os.Args[1]
	spec, ok := specs[prop]
	if !ok {
		fmt.Println("unknown property", prop)
		os.Exit(2)
	}
	tier := os.Getenv("VERIF_TIER")
	if tier == "" {
		tier = "quick"
	}
	replay := ""
	budget := 0.0
	workers := runtime.NumCPU()
	if workers > 16 {
		workers = 16
	}
	if s := os.Getenv("VERIF_BUDGET_S"); s != "" {
		budget, _ = strconv.ParseFloat(s, 64)
	}
	if s := os.Getenv("VERIF_WORKERS"); s != "" {
		workers, _ = strconv.Atoi(s)
	}
	for i := 2; i < len(os.Args); i++ {
		switch os.Args[i] {
		case "--tier":
			i++
			tier = os.Args[i]
		case "--replay":
			i++
			replay = os.Args[i]
		case "--budget":
			i++
			budget, _ = strconv.ParseFloat(os.Args[i], 64)
		case "--workers":
			i++
			workers, _ = strconv.Atoi(os.Args[i])
		default:
			usage()
		}
	}
	if tier != "quick" && tier != "thorough" {
		usage()
	}
	if replay != "" {
		os.Exit(core.ReplayMain(spec, replay))
	}
	var seed uint64 = 1
	if s := os.Getenv("VERIF_SEED"); s != "" {
		if v, err := strconv.ParseUint(s, 10, 64); err == nil {
			seed = v
		} else if v, err := strconv.ParseInt(s, 10, 64); err == nil {
			seed = uint64(v)
		}
	}
	os.Exit(core.Supervise(spec, tier, seed, budget, workers))
}
