package main

import (
	"crypto/sha256"
	"encoding/hex"
	"encoding/json"
	"fmt"
	"os"
	"strings"

	lua "github.com/yuin/gopher-lua"

	"luasim/engines/streamload"
)

// genCorpus writes /verif/corpus.json: for every corpus file its hash and
// whether it loads on the tree it was generated from (the pinned tree).
func genCorpus() {
	type ent struct {
		Name  string `json:"name"`
		Sha   string `json:"sha256"`
		Loads bool   `json:"loads"`
	}
	var out []ent
	L := lua.NewState()
	for _, c := range streamload.Corpus() {
		sum := sha256.Sum256([]byte(c.Data))
		_, err := L.Load(strings.NewReader(c.Data), c.Name)
		out = append(out, ent{c.Name, hex.EncodeToString(sum[:]), err == nil})
	}
	b, _ := json.MarshalIndent(out, "", " ")
	os.WriteFile("/verif/corpus.json", b, 0o644)
	fmt.Printf("wrote %d corpus entries\n", len(out))
}
